// Package c01: cell ids form a consistent, invertible quadtree along the Hilbert curve.
package c01

import (
	"fmt"
	"math"
	"math/big"
	"os"
	"sort"
	"strconv"
	"strings"
	"sync"

	"github.com/golang/geo/r3"
	"github.com/golang/geo/s2"
	"pgregory.net/rapid"

	"verifharness/internal/ev"
	"verifharness/internal/gen"
)

func fail(finding, format string, a ...any) ev.Outcome {
	return ev.Outcome{Err: fmt.Sprintf(format, a...), Finding: finding}
}

func failO(o ev.Outcome, finding, format string, a ...any) ev.Outcome {
	o.Err = fmt.Sprintf(format, a...)
	o.Finding = finding
	return o
}

// ------------------------------------------------------------------ generators

// rapid's integer and float ranges are deliberately biased towards small
// magnitudes (geometric bit length), which is what shrinking wants but makes
// "uniform over 2^60 positions" land in the first few thousand.  uni mixes two
// rapid draws through splitmix64: still a pure function of rapid's draws
// (replays, shrinks towards small seeds) but spread over all 64 bits.
func uni(t *rapid.T, label string) uint64 {
	a := rapid.Uint64().Draw(t, label+".ua")
	b := rapid.Uint64().Draw(t, label+".ub")
	z := a + 0x9e3779b97f4a7c15*(b+1)
	z = (z ^ (z >> 30)) * 0xbf58476d1ce4e5b9
	z = (z ^ (z >> 27)) * 0x94d049bb133111eb
	return z ^ (z >> 31)
}

func uniInt64(t *rapid.T, label string, lo, hi int64) int64 {
	if hi <= lo {
		return lo
	}
	return lo + int64(uni(t, label)%uint64(hi-lo+1))
}

func uniFloat(t *rapid.T, label string, lo, hi float64) float64 {
	f := lo + (hi-lo)*float64(uni(t, label)>>11)/(1<<53)
	if f < lo {
		f = lo
	}
	if f > hi {
		f = hi
	}
	return f
}

// cellAt returns the cell of the lattice square (face, level, a, b), found
// through the centre of the square (generator only; checks never trust it).
func cellAt(face, level int, a, b int64) s2.CellID {
	n := float64(int64(1) << uint(level))
	u := myStToUV((float64(a) + 0.5) / n)
	v := myStToUV((float64(b) + 0.5) / n)
	p := s2.Point{Vector: gen.FaceUVToXYZ(face, u, v).Normalize()}
	return s2.CellFromPoint(p).ID().Parent(level)
}

// genCell: uniform / path-biased ids (gen.CellID) mixed with lattice-biased
// ones (columns and rows 0, 1, 2^L-2, 2^L-1, 2^k, 2^k-1: cells on face edges,
// cube corners and coarse cell boundaries at every level).
func genCell(t *rapid.T, label string) s2.CellID {
	face := rapid.IntRange(0, 5).Draw(t, label+".f")
	level := rapid.IntRange(0, 30).Draw(t, label+".l") // biased towards coarse levels
	if rapid.IntRange(0, 3).Draw(t, label+".lu") != 0 {
		level = int(uni(t, label+".lv") % 31) // uniform over levels
	}
	switch rapid.IntRange(0, 5).Draw(t, label+".src") {
	case 0:
		return gen.CellID(t, label)
	case 1:
		// uniform over the positions of the level
		return s2.CellIDFromFacePosLevel(face, uni(t, label+".pos")&(1<<61-1), level)
	}
	n := int64(1) << uint(level)
	coord := func(l string) int64 {
		var v int64
		switch rapid.IntRange(0, 7).Draw(t, l+".m") {
		case 0:
			v = 0
		case 1:
			v = n - 1
		case 2:
			v = 1
		case 3:
			v = n - 2
		case 4:
			if level > 0 {
				v = int64(1) << uint(rapid.IntRange(0, level-1).Draw(t, l+".k"))
				if rapid.Bool().Draw(t, l+".d") {
					v--
				}
			}
		default:
			v = uniInt64(t, l+".v", 0, n-1)
		}
		if v < 0 {
			v = 0
		}
		if v > n-1 {
			v = n - 1
		}
		return v
	}
	return cellAt(face, level, coord(label+".a"), coord(label+".b"))
}

// snapped: a unit point whose exact ratios y/x (…) are within a few ulps of a
// cell boundary value in u and/or v: normalise the exact boundary point
// (1,u,v) and re-set each minor coordinate to fl(ratio·major) ± k ulps.
func snapped(t *rapid.T, label string) s2.Point {
	id := genCell(t, label+".c")
	if rapid.Bool().Draw(t, label+".fine") {
		// fine cells at arbitrary positions: boundary values with arbitrary mantissas
		lv := rapid.IntRange(22, 30).Draw(t, label+".fl")
		n := int64(1) << uint(lv)
		// 1/2 of these in s,t ∈ [0.2,0.3): there |u| < 1/2 has the smallest ulp while
		// du/ds is still > 2, so the uv->st->ij round-off is largest in ulps of u
		lo, hi := int64(0), n-1
		if rapid.Bool().Draw(t, label+".band") {
			lo, hi = n/5, 3*n/10
		}
		id = cellAt(rapid.IntRange(0, 5).Draw(t, label+".ff"), lv, uniInt64(t, label+".fa", lo, hi), uniInt64(t, label+".fb", lo, hi))
	}
	c := s2.CellFromCellID(id)
	b := c.BoundUV()
	pick := func(l string, lo, hi float64) (float64, bool) {
		switch rapid.IntRange(0, 4).Draw(t, l+".m") {
		case 0:
			return lo, true
		case 1:
			return hi, true
		case 2:
			return rapid.SampledFrom([]float64{-1, 0, 1, lo, hi}).Draw(t, l+".s"), true
		default:
			return uniFloat(t, l+".f", lo, hi), false
		}
	}
	u, ub := pick(label+".u", b.X.Lo, b.X.Hi)
	v, vb := pick(label+".v", b.Y.Lo, b.Y.Hi)
	if !ub && !vb {
		u = b.X.Lo
	}
	face := int(id.Face())
	raw := gen.FaceUVToXYZ(face, u, v)
	q := raw.Normalize()
	rc := [3]float64{raw.X, raw.Y, raw.Z}
	qc := [3]float64{q.X, q.Y, q.Z}
	w := frames[face][2].i
	for a := 0; a < 3; a++ {
		if a == w {
			continue
		}
		ratio := rc[a] * rc[w] // rc[w] = ±1
		k := int(uniInt64(t, fmt.Sprintf("%s.k%d", label, a), -8, 8))
		qc[a] = gen.Ulps(ratio*qc[w], k)
	}
	p := s2.Point{Vector: r3.Vector{X: qc[0], Y: qc[1], Z: qc[2]}}
	if gen.Unit(p) {
		return p
	}
	return gen.Fix(s2.Point{Vector: q}, s2.Point{Vector: r3.Vector{X: 1}})
}

func genPoint(t *rapid.T, label string) s2.Point {
	switch rapid.IntRange(0, 11).Draw(t, label+".src") {
	case 0, 1:
		return gen.Base(t, label)
	case 2:
		return gen.Perturb(t, label+".pp", gen.Symmetric(t, label), 4)
	case 3:
		return gen.Perturb(t, label+".pp", gen.CellDerived(t, label), 4)
	case 4:
		return gen.Spread(t, label)
	case 5:
		return gen.Perturb(t, label+".pp", gen.PlanePoint(t, label), 2)
	default:
		return snapped(t, label)
	}
}

// ------------------------------------------------------------------ a) points

type ptCase struct {
	P     gen.P
	Lvl   int    // level of the second cell for the two-sided ContainsPoint test
	K     int    // 0..3 edge neighbour k of the level-Lvl ancestor; 4: Other
	Other uint64 // any valid cell id
}

func genPtCase(t *rapid.T) ptCase {
	p := genPoint(t, "p")
	return ptCase{
		P:     gen.FromPt(p),
		Lvl:   rapid.IntRange(0, 30).Draw(t, "lvl"),
		K:     rapid.IntRange(0, 4).Draw(t, "k"),
		Other: uint64(genCell(t, "other")),
	}
}

func boundaryLevel(i int64) int { // coarsest level at which leaf line i is a cell boundary
	if i == 0 || i == 1<<30 {
		return 0
	}
	l := 30
	for i&1 == 0 {
		i >>= 1
		l--
	}
	return l
}

func checkPoint(c ptCase) ev.Outcome {
	o := ev.Outcome{}
	p := c.P.Pt()
	if !gen.Unit(p) {
		o.Skip = true
		return o
	}
	leaf := s2.CellFromPoint(p)
	lid := leaf.ID()
	id := uint64(lid)
	if !mValid(id) || mLevel(id) != 30 || !lid.IsValid() || !lid.IsLeaf() || leaf.Level() != 30 || lid.Level() != 30 {
		return fail("leaf-invalid", "CellFromPoint(%v) = %#x is not a valid leaf cell", p, id)
	}
	F := leaf.Face()
	if F != int(id>>61) || F != lid.Face() {
		return fail("face-mismatch", "Cell.Face()=%d, CellID.Face()=%d, top bits %d", F, lid.Face(), id>>61)
	}
	pc := [3]float64{p.X, p.Y, p.Z}
	u, v, w := toUVW(F, pc)
	if !(w > 0 && w >= math.Abs(u) && w >= math.Abs(v)) {
		return fail("wrong-face", "p=%v mapped to face %d, which is not a face of its largest component", c.P, F)
	}
	ru, rv := exactRatio(u, w), exactRatio(v, w)
	s, msg := readSq(leaf)
	if msg != "" {
		return fail("off-lattice", "%s", msg)
	}
	b := leaf.BoundUV()
	exU, exV := excess(ru, b.X.Lo, b.X.Hi), excess(rv, b.Y.Lo, b.Y.Hi)
	ex := exU
	if exV.Cmp(ex) > 0 {
		ex = exV
	}
	exf, _ := ex.Float64()
	o.Ratios = map[string]float64{"exact_uv_outside_leaf_rect/dblEpsilon": exf / eps}
	if ex.Cmp(rat2eps) > 0 {
		return failO(o, "leaf-far", "exact (u,v) of p=%v lies %.3g·eps outside BoundUV of CellFromPoint(p)=%v", c.P, exf/eps, lid)
	}
	if !leaf.ContainsPoint(p) {
		// Narrow class: the point is outside the leaf's rectangle by more than
		// ContainsPoint's margin (so ContainsPoint itself answers correctly for its
		// margin) but by no more than 2·eps: the uv->st->ij round-off of
		// CellFromPoint exceeds the dblEpsilon that ContainsPoint allows for it.
		finding := "leaf-not-containing"
		if ex.Cmp(ratOf(0.75*eps)) > 0 {
			finding = "contains-margin-below-roundoff"
		}
		return failO(o, finding, "CellFromPoint(p).ContainsPoint(p) is false for p=%v (cell %v; exact (u,v) is %.3g·eps outside its BoundUV)", c.P, lid, exf/eps)
	}
	// independent lattice cell of p through the exact inverse transform
	mi, mj := exactLeafIndex(ru), exactLeafIndex(rv)
	du, su := nearBoundary(ru, b.X.Lo, b.X.Hi)
	dv, sv := nearBoundary(rv, b.Y.Lo, b.Y.Hi)
	if mi != s.A {
		if d := mi - s.A; d < -1 || d > 1 || du.Cmp(rat2eps) > 0 {
			return failO(o, "leaf-wrong-column", "p=%v: exact lattice column %d but leaf cell column %d (distance to boundary %v)", c.P, mi, s.A, du)
		}
	}
	if mj != s.B {
		if d := mj - s.B; d < -1 || d > 1 || dv.Cmp(rat2eps) > 0 {
			return failO(o, "leaf-wrong-row", "p=%v: exact lattice row %d but leaf cell row %d (distance to boundary %v)", c.P, mj, s.B, dv)
		}
	}
	nearU, nearV := du.Cmp(rat4eps) <= 0, dv.Cmp(rat4eps) <= 0
	o.NonTrivial = nearU || nearV
	lu, lv := boundaryLevel(s.A+int64(su)), boundaryLevel(s.B+int64(sv))
	bucket := func(l int) string {
		switch {
		case l == 0:
			return "face-edge"
		case l <= 10:
			return "L1-10"
		case l <= 20:
			return "L11-20"
		default:
			return "L21-30"
		}
	}
	switch {
	case nearU && nearV && lu == 0 && lv == 0:
		o.Class = "vertex:cube-corner"
	case nearU && nearV && (lu == 0 || lv == 0):
		o.Class = "vertex:on-face-edge"
	case nearU && nearV:
		l := lu
		if lv > l {
			l = lv
		}
		o.Class = "vertex:" + bucket(l)
	case nearU:
		o.Class = "edge:" + bucket(lu)
	case nearV:
		o.Class = "edge:" + bucket(lv)
	default:
		o.Class = "interior"
	}
	if ex.Sign() > 0 {
		o.Class += "+outside"
	}
	// every ancestor contains p; rectangles and lattice squares are nested
	prev := b
	for l := 29; l >= 0; l-- {
		anc := lid.Parent(l)
		if uint64(anc) != mParent(id, l) {
			return failO(o, "parent-bits", "Parent(%d) of %#x = %#x, model %#x", l, id, uint64(anc), mParent(id, l))
		}
		ac := s2.CellFromCellID(anc)
		if ac.Face() != F || ac.Level() != l {
			return failO(o, "ancestor-face-level", "ancestor %v: face %d level %d", anc, ac.Face(), ac.Level())
		}
		ab := ac.BoundUV()
		if !(ab.X.Lo <= prev.X.Lo && prev.X.Hi <= ab.X.Hi && ab.Y.Lo <= prev.Y.Lo && prev.Y.Hi <= ab.Y.Hi) {
			return failO(o, "ancestor-not-nested", "BoundUV of level-%d ancestor %v does not contain that of level %d", l, anc, l+1)
		}
		as, msg := readSq(ac)
		if msg != "" {
			return failO(o, "off-lattice", "%s", msg)
		}
		d := uint(30 - l)
		if as.A != s.A>>d || as.B != s.B>>d {
			return failO(o, "ancestor-square", "level-%d ancestor %v is square %v, leaf is %v", l, anc, as, s)
		}
		if !ac.ContainsPoint(p) {
			return failO(o, "ancestor-not-containing", "level-%d ancestor %v of CellFromPoint(p) does not ContainsPoint(p), p=%v", l, anc, c.P)
		}
		prev = ab
	}
	// two-sided ContainsPoint on another cell against exact membership
	var x s2.CellID
	if c.K >= 0 && c.K <= 3 && c.Lvl >= 0 && c.Lvl <= 30 {
		x = lid.Parent(c.Lvl).EdgeNeighbors()[c.K]
	} else {
		x = s2.CellID(c.Other)
	}
	if mValid(uint64(x)) {
		xc := s2.CellFromCellID(x)
		xu, xv, xw := toUVW(xc.Face(), pc)
		got := xc.ContainsPoint(p)
		xb := xc.BoundUV()
		if xw <= 0 {
			if got {
				return failO(o, "contains-wrong-hemisphere", "cell %v ContainsPoint(p) although p is not on the face's side, p=%v", x, c.P)
			}
		} else {
			e1 := excess(exactRatio(xu, xw), xb.X.Lo, xb.X.Hi)
			e2 := excess(exactRatio(xv, xw), xb.Y.Lo, xb.Y.Hi)
			if e2.Cmp(e1) > 0 {
				e1 = e2
			}
			if e1.Sign() == 0 && !got {
				return failO(o, "contains-false-negative", "p=%v is exactly inside BoundUV of cell %v but ContainsPoint is false", c.P, x)
			}
			// 8·eps: four times today's margin plus rounding, so that a repair that
			// widens ContainsPoint's margin does not turn this into a false alarm.
			if e1.Cmp(rat8eps) > 0 && got {
				f, _ := e1.Float64()
				return failO(o, "contains-false-positive", "p=%v is %.3g·eps outside BoundUV of cell %v but ContainsPoint is true", c.P, f/eps, x)
			}
			if got {
				o.Counts = map[string]int{"other_cell_contains": 1}
			}
		}
	}
	return o
}

// ------------------------------------------------------------------ b,c) id algebra

type idCase struct {
	ID    uint64
	Other uint64
	Steps int64
	Lvl   int
	Noise uint64
}

func genRelative(t *rapid.T, label string, id s2.CellID) s2.CellID {
	l := id.Level()
	switch rapid.IntRange(0, 9).Draw(t, label+".rel") {
	case 0:
		return id
	case 1:
		return id.Parent(rapid.IntRange(0, l).Draw(t, label+".pl"))
	case 2:
		return id.RangeMin()
	case 3:
		return id.RangeMax()
	case 4:
		if n := id.RangeMax().NextWrap(); n.IsValid() {
			return n
		}
	case 5:
		if n := id.RangeMin().PrevWrap(); n.IsValid() {
			return n.Parent(rapid.IntRange(0, 30).Draw(t, label+".ql"))
		}
	case 6:
		return id.NextWrap()
	case 7:
		// descendant
		x := id
		for x.Level() < 30 && rapid.IntRange(0, 3).Draw(t, label+".more") != 0 {
			x = x.Children()[rapid.IntRange(0, 3).Draw(t, label+".ch")]
		}
		return x
	case 8:
		// shares a prefix of drawn length, then diverges
		x := id.Parent(rapid.IntRange(0, l).Draw(t, label+".cl"))
		dl := rapid.IntRange(x.Level(), 30).Draw(t, label+".dl")
		for x.Level() < dl {
			x = x.Children()[rapid.IntRange(0, 3).Draw(t, label+".dc")]
		}
		return x
	}
	return genCell(t, label+".any")
}

func genSteps(t *rapid.T, level int, idx uint64) int64 {
	n := int64(mCount(level))
	switch rapid.IntRange(0, 7).Draw(t, "steps.m") {
	case 0:
		return rapid.Int64Range(-20, 20).Draw(t, "steps.s")
	case 1:
		return rapid.SampledFrom([]int64{math.MinInt64, math.MinInt64 + 1, math.MaxInt64, math.MaxInt64 - 1, 0}).Draw(t, "steps.x")
	case 2:
		return n*rapid.Int64Range(-3, 3).Draw(t, "steps.q") + rapid.Int64Range(-2, 2).Draw(t, "steps.r")
	case 3:
		// exactly to / just past the ends
		return -int64(idx) + rapid.Int64Range(-2, 2).Draw(t, "steps.b")
	case 4:
		return n - int64(idx) + rapid.Int64Range(-2, 2).Draw(t, "steps.e")
	case 5:
		return uniInt64(t, "steps.u", -n, n)
	case 6:
		return int64(uni(t, "steps.w"))
	default:
		return rapid.Int64().Draw(t, "steps.any")
	}
}

func genIDCase(t *rapid.T) idCase {
	id := genCell(t, "id")
	return idCase{
		ID:    uint64(id),
		Other: uint64(genRelative(t, "o", id)),
		Steps: genSteps(t, id.Level(), mIndex(uint64(id))),
		Lvl:   rapid.IntRange(0, 30).Draw(t, "lvl"),
		Noise: uni(t, "noise"),
	}
}

func bigIdx(k uint64) *big.Int { return new(big.Int).SetUint64(k) }

func checkID(c idCase) ev.Outcome {
	o := ev.Outcome{}
	if !mValid(c.ID) || !mValid(c.Other) || c.Lvl < 0 || c.Lvl > 30 {
		o.Skip = true
		return o
	}
	x := s2.CellID(c.ID)
	id := c.ID
	l := mLevel(id)
	k := mIndex(id)
	n := mCount(l)
	switch {
	case l == 0:
		o.Class = "L00"
	case l <= 10:
		o.Class = "L01-10"
	case l <= 20:
		o.Class = "L11-20"
	case l <= 29:
		o.Class = "L21-29"
	default:
		o.Class = "L30"
	}
	first, last := k == 0, k == n-1
	o.NonTrivial = true
	if !x.IsValid() || x.Level() != l || x.Face() != int(id>>61) || x.Pos() != id&(1<<61-1) || x.IsLeaf() != (l == 30) {
		return failO(o, "accessors", "id %#x: IsValid=%v Level=%d Face=%d Pos=%#x IsLeaf=%v; model level %d", id, x.IsValid(), x.Level(), x.Face(), x.Pos(), x.IsLeaf(), l)
	}
	if uint64(x.RangeMin()) != mRangeMin(id) || uint64(x.RangeMax()) != mRangeMax(id) {
		return failO(o, "range", "id %#x: RangeMin/Max %#x %#x, model %#x %#x", id, uint64(x.RangeMin()), uint64(x.RangeMax()), mRangeMin(id), mRangeMax(id))
	}
	for pl := 0; pl <= l; pl++ {
		if got := uint64(x.Parent(pl)); got != mParent(id, pl) {
			return failO(o, "parent", "Parent(%d) of %#x = %#x, model %#x", pl, id, got, mParent(id, pl))
		}
		if pl >= 1 {
			cp := x.ChildPosition(pl)
			if cp < 0 || cp > 3 || uint64(x.Parent(pl - 1).Children()[cp]) != mParent(id, pl) {
				return failO(o, "child-position", "ChildPosition(%d) of %#x = %d does not select the level-%d ancestor among the children of the level-%d ancestor", pl, id, cp, pl, pl-1)
			}
		}
	}
	if l < 30 {
		ch := x.Children()
		for i := 0; i < 4; i++ {
			if uint64(ch[i]) != mChild(id, i) {
				return failO(o, "children", "Children()[%d] of %#x = %#x, model %#x", i, id, uint64(ch[i]), mChild(id, i))
			}
			if ch[i].Parent(l) != x || ch[i].Level() != l+1 || ch[i].ChildPosition(l+1) != i {
				return failO(o, "children", "child %d of %#x: Parent/Level/ChildPosition inconsistent", i, id)
			}
		}
		// the four children partition the leaf range in order
		if ch[0].RangeMin() != x.RangeMin() || ch[3].RangeMax() != x.RangeMax() {
			return failO(o, "children-partition", "children of %#x do not start/end at the parent's range", id)
		}
		for i := 0; i < 3; i++ {
			if uint64(ch[i].RangeMax())+2 != uint64(ch[i+1].RangeMin()) {
				return failO(o, "children-partition", "children %d,%d of %#x leave a gap or overlap", i, i+1, id)
			}
		}
		if uint64(x.ChildBegin()) != mChild(id, 0) || uint64(x.ChildEnd()) != mFromIndex(l+1, 4*k+4) {
			return failO(o, "child-begin-end", "ChildBegin/End of %#x = %#x %#x", id, uint64(x.ChildBegin()), uint64(x.ChildEnd()))
		}
	}
	// ChildBeginAtLevel / ChildEndAtLevel and traversal
	dl := l + c.Lvl%(31-l)
	sh := uint(2 * (dl - l))
	if uint64(x.ChildBeginAtLevel(dl)) != mFromIndex(dl, k<<sh) || uint64(x.ChildEndAtLevel(dl)) != mFromIndex(dl, (k+1)<<sh) {
		return failO(o, "child-begin-end-level", "ChildBeginAtLevel/EndAtLevel(%d) of %#x = %#x %#x", dl, id, uint64(x.ChildBeginAtLevel(dl)), uint64(x.ChildEndAtLevel(dl)))
	}
	if dl-l <= 3 {
		cnt := 0
		prevMax := uint64(x.RangeMin()) - 2
		for ci := x.ChildBeginAtLevel(dl); ci != x.ChildEndAtLevel(dl); ci = ci.Next() {
			if cnt > 64 || !x.Contains(ci) || ci.Level() != dl || uint64(ci.RangeMin()) != prevMax+2 {
				return failO(o, "traversal", "traversal of the level-%d descendants of %#x is not an in-order partition (step %d at %#x)", dl, id, cnt, uint64(ci))
			}
			prevMax = uint64(ci.RangeMax())
			cnt++
		}
		if cnt != 1<<sh || prevMax != uint64(x.RangeMax()) {
			return failO(o, "traversal", "traversal of the level-%d descendants of %#x visits %d cells", dl, id, cnt)
		}
	}
	// Next / Prev / wrap
	if uint64(x.Next()) != mFromIndex(l, k+1) {
		return failO(o, "next", "Next of %#x = %#x, model %#x", id, uint64(x.Next()), mFromIndex(l, k+1))
	}
	if !first && uint64(x.Prev()) != mFromIndex(l, k-1) {
		return failO(o, "prev", "Prev of %#x = %#x, model %#x", id, uint64(x.Prev()), mFromIndex(l, k-1))
	}
	if uint64(x.NextWrap()) != mFromIndex(l, (k+1)%n) || uint64(x.PrevWrap()) != mFromIndex(l, (k+n-1)%n) {
		return failO(o, "wrap", "NextWrap/PrevWrap of %#x = %#x %#x", id, uint64(x.NextWrap()), uint64(x.PrevWrap()))
	}
	if first || last {
		o.Class += ":end-of-curve"
	}
	// Advance / AdvanceWrap on the index model (big integers: no overflow concerns)
	tgt := new(big.Int).Add(bigIdx(k), big.NewInt(c.Steps))
	clamped := new(big.Int).Set(tgt)
	if clamped.Sign() < 0 {
		clamped.SetInt64(0)
	}
	if clamped.Cmp(bigIdx(n)) > 0 {
		clamped.SetUint64(n)
	}
	if got, want := uint64(x.Advance(c.Steps)), mFromIndex(l, clamped.Uint64()); got != want {
		return failO(o, "advance", "(%#x).Advance(%d) = %#x, model %#x (index %d of %d)", id, c.Steps, got, want, k, n)
	}
	wrapped := new(big.Int).Mod(tgt, bigIdx(n)) // Euclidean: in [0,n)
	if got, want := uint64(x.AdvanceWrap(c.Steps)), mFromIndex(l, wrapped.Uint64()); got != want {
		return failO(o, "advance-wrap", "(%#x).AdvanceWrap(%d) = %#x, model %#x (index %d of %d)", id, c.Steps, got, want, k, n)
	}
	// CellIDFromFacePosLevel
	for _, pos := range []uint64{x.Pos(), c.Noise & (1<<61 - 1), (x.Pos() &^ (mLsb(id)<<1 - 1)) | c.Noise&(mLsb(id)<<1-1)} {
		for _, f := range []int{x.Face(), int(c.Noise>>61) % 6} {
			leafish := (uint64(f)<<61 + pos) | 1
			if got, want := uint64(s2.CellIDFromFacePosLevel(f, pos, c.Lvl)), mParent(leafish, c.Lvl); got != want {
				return failO(o, "from-face-pos-level", "CellIDFromFacePosLevel(%d,%#x,%d) = %#x, model %#x", f, pos, c.Lvl, got, want)
			}
		}
	}
	if c.Lvl <= l && s2.CellIDFromFacePosLevel(x.Face(), x.Pos(), c.Lvl) != x.Parent(c.Lvl) {
		return failO(o, "from-face-pos-level", "CellIDFromFacePosLevel(Face,Pos,%d) != Parent(%d) for %#x", c.Lvl, c.Lvl, id)
	}
	if s2.CellIDFromFace(x.Face()) != x.Parent(0) {
		return failO(o, "from-face", "CellIDFromFace(%d) != Parent(0) of %#x", x.Face(), id)
	}
	// Contains / Intersects / CommonAncestorLevel with a related cell
	y := s2.CellID(c.Other)
	if x.Contains(y) != mContains(id, c.Other) || y.Contains(x) != mContains(c.Other, id) ||
		x.Intersects(y) != mIntersects(id, c.Other) || y.Intersects(x) != mIntersects(id, c.Other) {
		return failO(o, "contains-intersects", "Contains/Intersects(%#x,%#x) disagree with the leaf-interval model", id, c.Other)
	}
	wantCAL, wantOK := -1, false
	ly := mLevel(c.Other)
	for a := 0; a <= l && a <= ly; a++ {
		if mParent(id, a) == mParent(c.Other, a) {
			wantCAL, wantOK = a, true
		}
	}
	gotCAL, gotOK := x.CommonAncestorLevel(y)
	if gotOK != wantOK || (wantOK && gotCAL != wantCAL) {
		return failO(o, "common-ancestor", "CommonAncestorLevel(%#x,%#x) = %d,%v model %d,%v", id, c.Other, gotCAL, gotOK, wantCAL, wantOK)
	}
	switch {
	case mContains(id, c.Other) || mContains(c.Other, id):
		o.Class += ":nested"
	case wantOK:
		o.Class += ":same-face"
	default:
		o.Class += ":other-face"
	}
	// MaxTile: documented definition by brute force, and the documented tiling loop
	limits := []s2.CellID{y, s2.CellID(mFromIndex(ly, mCount(ly)))} // a valid cell and End(level)
	for _, limit := range limits {
		lim := uint64(limit)
		limMin := lim - (mLsb(lim) - 1)
		want := lim
		if mRangeMin(id) < limMin {
			startLeaf := mRangeMin(id)
			for a := 0; a <= 30; a++ {
				cand := mParent(startLeaf, a)
				if mRangeMin(cand) == startLeaf && mRangeMax(cand) < limMin {
					want = cand
					break
				}
			}
		}
		if got := uint64(x.MaxTile(limit)); got != want {
			return failO(o, "max-tile", "(%#x).MaxTile(%#x) = %#x, largest cell by definition %#x", id, lim, got, want)
		}
		// tiling of [x.RangeMin, limit.RangeMin)
		cur := uint64(x.RangeMin())
		steps := 0
		for tile := s2.CellID(cur).MaxTile(limit); tile != limit; tile = tile.Next().MaxTile(limit) {
			steps++
			if steps > 400 || !mValid(uint64(tile)) || mRangeMin(uint64(tile)) != cur || mRangeMax(uint64(tile)) >= limMin {
				return failO(o, "max-tile-tiling", "tiling from %#x to %#x: tile %d = %#x is not the next piece of the range", cur, lim, steps, uint64(tile))
			}
			cur = mRangeMax(uint64(tile)) + 2
		}
		if uint64(x.RangeMin()) < limMin && cur != limMin {
			return failO(o, "max-tile-tiling", "tiling from %#x to %#x stops at %#x", uint64(x.RangeMin()), lim, cur)
		}
	}
	return o
}

// ------------------------------------------------------------------ b) tokens and strings

type tokCase struct {
	Raw uint64
	S   string
}

const badChars = " +-xX_gGzZ/:.,\x00\né０"

func genRaw(t *rapid.T) uint64 {
	id := uint64(genCell(t, "id"))
	switch rapid.IntRange(0, 7).Draw(t, "raw.m") {
	case 0:
		return rapid.SampledFrom([]uint64{0, ^uint64(0), 1, 1 << 63, 6 << 61, 6<<61 | 1, 7<<61 | 1, 1 << 62, 1 << 60, 1 << 61}).Draw(t, "raw.s")
	case 1:
		if rapid.Bool().Draw(t, "raw.small") {
			return rapid.Uint64().Draw(t, "raw.u")
		}
		return uni(t, "raw.w")
	case 2:
		return id<<1 | id>>63 // lsb on an odd bit
	case 3:
		return id | uint64(rapid.IntRange(6, 7).Draw(t, "raw.f"))<<61
	case 4:
		return id ^ (1 << uint(rapid.IntRange(0, 63).Draw(t, "raw.b")))
	default:
		return id
	}
}

func genTokCase(t *rapid.T) tokCase {
	raw := genRaw(t)
	tok := s2.CellID(raw).ToToken()
	str := s2.CellID(raw).String()
	var s string
	mutate := func(base string) string {
		b := []rune(base)
		switch rapid.IntRange(0, 6).Draw(t, "mut") {
		case 0:
			return base
		case 1:
			return string(b[:rapid.IntRange(0, len(b)).Draw(t, "cut")])
		case 2:
			return base + strings.Repeat("0", rapid.IntRange(1, 34).Draw(t, "pad"))
		case 3:
			return strings.ToUpper(base)
		case 4:
			pos := rapid.IntRange(0, len(b)).Draw(t, "at")
			bad := []rune(badChars)
			r := bad[rapid.IntRange(0, len(bad)-1).Draw(t, "bad")]
			return string(b[:pos]) + string(r) + string(b[pos:])
		case 5:
			if len(b) == 0 {
				return base
			}
			pos := rapid.IntRange(0, len(b)-1).Draw(t, "at")
			b[pos] = rapid.SampledFrom([]rune("0123456789abcdefABCDEF/ gX")).Draw(t, "rep")
			return string(b)
		default:
			return strings.Repeat("0", rapid.IntRange(1, 17).Draw(t, "lead")) + base
		}
	}
	switch rapid.IntRange(0, 4).Draw(t, "smode") {
	case 0, 1:
		s = mutate(tok)
	case 2:
		s = mutate(str)
	case 3:
		s = rapid.StringOfN(rapid.SampledFrom([]rune("0123456789abcdefABCDEF")), 0, 18, -1).Draw(t, "hex")
	default:
		s = rapid.StringOfN(rapid.SampledFrom([]rune("01234567/")), 0, 34, -1).Draw(t, "digits")
	}
	return tokCase{Raw: raw, S: s}
}

func checkTok(c tokCase) ev.Outcome {
	o := ev.Outcome{}
	x := s2.CellID(c.Raw)
	valid := mValid(c.Raw)
	if x.IsValid() != valid {
		return fail("is-valid", "IsValid(%#x) = %v, model %v", c.Raw, x.IsValid(), valid)
	}
	tok := x.ToToken()
	if tok != mToToken(c.Raw) {
		return fail("to-token", "ToToken(%#x) = %q, want %q", c.Raw, tok, mToToken(c.Raw))
	}
	if got := s2.CellIDFromToken(tok); got != x {
		return fail("token-roundtrip", "FromToken(ToToken(%#x)) = %#x", c.Raw, uint64(got))
	}
	if valid {
		str := x.String()
		if str != mString(c.Raw) {
			return fail("to-string", "String(%#x) = %q, want %q", c.Raw, str, mString(c.Raw))
		}
		if got := s2.CellIDFromString(str); got != x {
			return fail("string-roundtrip", "FromString(String(%#x)=%q) = %#x", c.Raw, str, uint64(got))
		}
	} else if got := s2.CellIDFromString(x.String()); got != 0 {
		return fail("string-of-invalid", "FromString(String(invalid %#x)=%q) = %#x, want 0", c.Raw, x.String(), uint64(got))
	}
	// arbitrary / mutated text in both parsers
	wantT, wantS := mFromToken(c.S), mFromString(c.S)
	if got := uint64(s2.CellIDFromToken(c.S)); got != wantT {
		return fail("from-token", "CellIDFromToken(%q) = %#x, want %#x", c.S, got, wantT)
	}
	if got := uint64(s2.CellIDFromString(c.S)); got != wantS {
		return fail("from-string", "CellIDFromString(%q) = %#x, want %#x", c.S, got, wantS)
	}
	if wantS != 0 && !mValid(wantS) {
		return fail("harness", "string model produced invalid id")
	}
	switch {
	case wantS != 0:
		o.Class = "string-ok"
	case wantT != 0 && mValid(wantT):
		o.Class = "token-ok-valid-id"
	case wantT != 0:
		o.Class = "token-ok-invalid-id"
	default:
		o.Class = "malformed"
	}
	if !valid {
		o.Class += "/raw-invalid"
	}
	o.NonTrivial = o.Class == "malformed" || len(c.S) != len(tok)
	return o
}

// ------------------------------------------------------------------ c,d) hierarchy on the lattice

type cellCase struct{ ID uint64 }

func genCellCase(t *rapid.T) cellCase { return cellCase{uint64(genCell(t, "id"))} }

func vertexKey(p s2.Point) [3]uint64 {
	return [3]uint64{math.Float64bits(p.X), math.Float64bits(p.Y), math.Float64bits(p.Z)}
}

// checkLattice: everything about one cell that is an integer fact on the lattice.
func checkLattice(id uint64, full bool) (s sq, o ev.Outcome) {
	x := s2.CellID(id)
	l := mLevel(id)
	c := s2.CellFromCellID(x)
	if c.ID() != x || c.Level() != l || c.Face() != int(id>>61) {
		return s, fail("cell-accessors", "CellFromCellID(%#x): ID %#x level %d face %d", id, uint64(c.ID()), c.Level(), c.Face())
	}
	s, msg := readSq(c)
	if msg != "" {
		return s, fail("off-lattice", "%s", msg)
	}
	if l > 0 {
		ps, msg := readSq(s2.CellFromCellID(x.Parent(l - 1)))
		if msg != "" {
			return s, fail("off-lattice", "%s", msg)
		}
		if ps != (sq{s.F, l - 1, s.A >> 1, s.B >> 1}) {
			return s, fail("parent-square", "cell %v is square %v but its parent is %v", x, s, ps)
		}
	}
	// consecutive cells along the curve share a side (incl. face transitions and the wrap)
	nx := x.NextWrap()
	ns, msg := readSq(s2.CellFromCellID(nx))
	if msg != "" {
		return s, fail("off-lattice", "%s", msg)
	}
	if !shareFullEdge(s, ns) {
		return s, fail("curve-not-continuous", "cell %v = %v and the next cell along the curve %v = %v do not share a side", x, s, nx, ns)
	}
	// the centre maps back to the cell
	cp := x.Point()
	if got := s2.CellFromPoint(cp).ID().Parent(l); got != x {
		return s, fail("center-roundtrip", "CellFromPoint((%v).Point()).Parent(%d) = %v", x, l, got)
	}
	if !full {
		return s, ev.Outcome{}
	}
	if !gen.Unit(cp) {
		return s, fail("center-not-unit", "(%v).Point() = %v is not unit length", x, cp)
	}
	pu, pv, pw := toUVW(s.F, [3]float64{cp.X, cp.Y, cp.Z})
	b := c.BoundUV()
	if !(pw > 0) || excess(exactRatio(pu, pw), b.X.Lo, b.X.Hi).Sign() != 0 || excess(exactRatio(pv, pw), b.Y.Lo, b.Y.Hi).Sign() != 0 {
		return s, fail("center-outside", "(%v).Point() is not inside the cell's BoundUV exactly", x)
	}
	if l < 30 {
		mi, mj := exactLeafIndex(exactRatio(pu, pw)), exactLeafIndex(exactRatio(pv, pw))
		half := int64(1) << uint(29-l)
		ci, cj := (2*s.A+1)*half, (2*s.B+1)*half // leaf line through the centre
		if (mi != ci && mi != ci-1) || (mj != cj && mj != cj-1) {
			return s, fail("center-off", "(%v).Point() is in leaf column/row %d,%d; the centre line is %d,%d", x, mi, mj, ci, cj)
		}
	}
	// Cell accessors that name lattice lines
	z := int64(1) << uint(30-l)
	wantIJ := [4]int64{s.B * z, (s.A + 1) * z, (s.B + 1) * z, s.A * z}
	wantUV := [4]float64{b.Y.Lo, b.X.Hi, b.Y.Hi, b.X.Lo}
	for k := 0; k < 4; k++ {
		if int64(c.IJCoordOfEdge(k)) != wantIJ[k] || c.UVCoordOfEdge(k) != wantUV[k] {
			return s, fail("edge-coords", "cell %v edge %d: IJCoordOfEdge %d (lattice %d) UVCoordOfEdge %v (BoundUV %v)", x, k, c.IJCoordOfEdge(k), wantIJ[k], c.UVCoordOfEdge(k), wantUV[k])
		}
	}
	if int64(c.SizeIJ()) != z || c.SizeST() != 1/float64(int64(1)<<uint(l)) {
		return s, fail("size", "cell %v: SizeIJ %d SizeST %v", x, c.SizeIJ(), c.SizeST())
	}
	// children: four distinct quadrants, consecutive ones share a side, Cell.Children agrees
	if l < 30 {
		kids, ok := c.Children()
		if !ok {
			return s, fail("cell-children", "Cell.Children of non-leaf %v reports false", x)
		}
		var prev sq
		seen := map[sq]bool{}
		for k, ch := range x.Children() {
			cc := s2.CellFromCellID(ch)
			cs, msg := readSq(cc)
			if msg != "" {
				return s, fail("off-lattice", "%s", msg)
			}
			if !cs.inside(s) || cs.L != l+1 || seen[cs] {
				return s, fail("child-square", "child %d of %v = %v is square %v, not a new quadrant of %v", k, x, ch, cs, s)
			}
			seen[cs] = true
			if k > 0 && !shareFullEdge(prev, cs) {
				return s, fail("children-not-continuous", "children %d,%d of %v do not share a side", k-1, k, x)
			}
			prev = cs
			kc := kids[k]
			if kc.ID() != ch || kc.Face() != cc.Face() || kc.Level() != cc.Level() || kc.BoundUV() != cc.BoundUV() {
				return s, fail("cell-children", "Cell.Children()[%d] of %v differs from CellFromCellID(%v): %v vs %v", k, x, ch, kc.BoundUV(), cc.BoundUV())
			}
			for v := 0; v < 4; v++ {
				if kc.Vertex(v) != cc.Vertex(v) {
					return s, fail("cell-children", "Cell.Children()[%d] of %v: Vertex(%d) differs from CellFromCellID", k, x, v)
				}
			}
		}
	} else if _, ok := c.Children(); ok {
		return s, fail("cell-children", "Cell.Children of leaf %v reports true", x)
	}
	return s, ev.Outcome{}
}

func sqClass(s sq) (string, bool) {
	n, corner := s.onFaceEdges()
	lv := "L00"
	switch {
	case s.L == 0:
	case s.L <= 10:
		lv = "L01-10"
	case s.L <= 20:
		lv = "L11-20"
	case s.L <= 29:
		lv = "L21-29"
	default:
		lv = "L30"
	}
	switch {
	case corner:
		return lv + ":cube-corner", true
	case n > 0:
		return lv + ":face-edge", true
	}
	return lv + ":interior", false
}

func checkHierarchy(c cellCase) ev.Outcome {
	if !mValid(c.ID) {
		return ev.Outcome{Skip: true}
	}
	s, o := checkLattice(c.ID, true)
	if o.Err != "" {
		return o
	}
	o.Class, _ = sqClass(s)
	// non-trivial: the step to the next cell crosses a face or a coarse boundary, or the cell is on a face edge
	nx, _ := readSq(s2.CellFromCellID(s2.CellID(c.ID).NextWrap()))
	_, edge := sqClass(s)
	o.NonTrivial = edge || nx.F != s.F || (s.L >= 2 && (nx.A>>uint(s.L-1) != s.A>>uint(s.L-1) || nx.B>>uint(s.L-1) != s.B>>uint(s.L-1)))
	if nx.F != s.F {
		o.Class += "+face-transition"
	}
	return o
}

// ------------------------------------------------------------------ e,f) neighbours

type nbrCase struct {
	ID       uint64
	NbrDelta int // AllNeighbors level = level + NbrDelta (capped at 30)
	VtxLevel int // VertexNeighbors level = VtxLevel mod level (needs level >= 1)
}

func genNbrCase(t *rapid.T) nbrCase {
	d := rapid.IntRange(0, 3).Draw(t, "delta")
	if rapid.IntRange(0, 9).Draw(t, "deep") == 0 {
		d = rapid.IntRange(4, 6).Draw(t, "delta2")
	}
	return nbrCase{ID: uint64(genCell(t, "id")), NbrDelta: d, VtxLevel: rapid.IntRange(0, 29).Draw(t, "vl")}
}

func sqSetString(m map[sq]bool) string {
	var ss []string
	for s := range m {
		ss = append(ss, s.String())
	}
	sort.Strings(ss)
	if len(ss) > 12 {
		ss = append(ss[:12], "…")
	}
	return strings.Join(ss, " ")
}

// readAll reads the squares of reported neighbour ids and checks validity,
// level and disjointness from the cell (leaf intervals).
func readAll(what string, x s2.CellID, ids []s2.CellID, level int, allowSelf bool) (map[sq]int, map[sq]s2.CellID, ev.Outcome) {
	got := map[sq]int{}
	byID := map[sq]s2.CellID{}
	for _, n := range ids {
		if !mValid(uint64(n)) {
			return nil, nil, fail(what+"-invalid", "%s of %v reports invalid id %#x", what, x, uint64(n))
		}
		if mLevel(uint64(n)) != level {
			return nil, nil, fail(what+"-level", "%s of %v at level %d reports %v of level %d", what, x, level, n, mLevel(uint64(n)))
		}
		if mIntersects(uint64(n), uint64(x)) && !(allowSelf && mContains(uint64(n), uint64(x))) {
			return nil, nil, fail(what+"-overlap", "%s of %v reports %v, which overlaps the cell", what, x, n)
		}
		s, msg := readSq(s2.CellFromCellID(n))
		if msg != "" {
			return nil, nil, fail("off-lattice", "%s", msg)
		}
		if prev, dup := byID[s]; dup && prev != n {
			return nil, nil, fail("square-not-injective", "cells %v and %v both read as square %v", prev, n, s)
		}
		got[s]++
		byID[s] = n
	}
	return got, byID, ev.Outcome{}
}

func compareSets(what string, x s2.CellID, xs sq, got map[sq]int, want []sq) ev.Outcome {
	wm := map[sq]bool{}
	for _, w := range want {
		wm[w] = true
	}
	extra, missing := map[sq]bool{}, map[sq]bool{}
	for g := range got {
		if !wm[g] {
			extra[g] = true
		}
	}
	for w := range wm {
		if got[w] == 0 {
			missing[w] = true
		}
	}
	if len(extra) > 0 {
		return fail(what+"-not-touching", "%s of %v (%v) reports squares that do not touch it: %s", what, x, xs, sqSetString(extra))
	}
	if len(missing) > 0 {
		return fail(what+"-incomplete", "%s of %v (%v) misses touching squares: %s", what, x, xs, sqSetString(missing))
	}
	return ev.Outcome{}
}

func checkEdgeNeighbors(x s2.CellID, s sq) (map[sq]s2.CellID, ev.Outcome) {
	en := x.EdgeNeighbors()
	got, byID, o := readAll("EdgeNeighbors", x, en[:], s.L, false)
	if o.Err != "" {
		return nil, o
	}
	if len(got) != 4 {
		return nil, fail("edge-neighbors-not-distinct", "EdgeNeighbors of %v are not four distinct cells: %v", x, en)
	}
	for k := 0; k < 4; k++ {
		ns, _ := readSq(s2.CellFromCellID(en[k]))
		if !ns.box().contains(s.edgeBox(k)) {
			return nil, fail("edge-neighbor-wrong-side", "EdgeNeighbors()[%d] of %v (%v) = %v (%v) does not contain side %d of the cell", k, x, s, en[k], ns, k)
		}
	}
	return byID, ev.Outcome{}
}

func checkAllNeighbors(x s2.CellID, s sq, level int) (map[sq]s2.CellID, ev.Outcome) {
	ids := x.AllNeighbors(level)
	got, byID, o := readAll("AllNeighbors", x, ids, level, false)
	if o.Err != "" {
		return nil, o
	}
	var want []sq
	for _, w := range touching(s.box(), level) {
		if !w.inside(s) {
			want = append(want, w)
		}
	}
	return byID, compareSets("AllNeighbors", x, s, got, want)
}

func checkVertexNeighbors(x s2.CellID, s sq, level int) (map[sq]s2.CellID, ev.Outcome) {
	ids := x.VertexNeighbors(level)
	got, byID, o := readAll("VertexNeighbors", x, ids, level, true)
	if o.Err != "" {
		return nil, o
	}
	for g, n := range got {
		if n > 1 {
			return nil, fail("vertex-neighbors-duplicate", "VertexNeighbors(%d) of %v reports square %v %d times", level, x, g, n)
		}
	}
	// closest vertex of the level-`level` ancestor: the corner of the ancestor's
	// quadrant the cell lies in
	d := uint(s.L - level)
	anc := sq{s.F, level, s.A >> d, s.B >> d}
	hiU := (s.A>>(d-1))&1 == 1
	hiV := (s.B>>(d-1))&1 == 1
	k := 0
	switch {
	case hiU && !hiV:
		k = 1
	case hiU && hiV:
		k = 2
	case !hiU && hiV:
		k = 3
	}
	want := touching(pointBox(anc.corner(k)), level)
	if len(want) != 3 && len(want) != 4 {
		return nil, fail("harness", "lattice model found %d squares at a vertex", len(want))
	}
	return byID, compareSets("VertexNeighbors", x, s, got, want)
}

// checkSharedVertices: f) Cell.Vertex of cells sharing a lattice corner is bit-identical.
func checkSharedVertices(x s2.CellID, s sq, nbrs map[sq]s2.CellID) ev.Outcome {
	c := s2.CellFromCellID(x)
	for ns, n := range nbrs {
		nc := s2.CellFromCellID(n)
		for i := 0; i < 4; i++ {
			for j := 0; j < 4; j++ {
				if s.corner(i) == ns.corner(j) && c.Vertex(i) != nc.Vertex(j) {
					return fail("shared-vertex-differs", "Vertex(%d) of %v and Vertex(%d) of %v are the same lattice corner but differ: %v vs %v", i, x, j, n, c.Vertex(i), nc.Vertex(j))
				}
			}
		}
	}
	return ev.Outcome{}
}

func checkNeighbors(c nbrCase) ev.Outcome {
	if !mValid(c.ID) || c.NbrDelta < 0 || c.NbrDelta > 6 || c.VtxLevel < 0 {
		return ev.Outcome{Skip: true}
	}
	x := s2.CellID(c.ID)
	s, msg := readSq(s2.CellFromCellID(x))
	if msg != "" {
		return fail("off-lattice", "%s", msg)
	}
	o := ev.Outcome{}
	o.Class, o.NonTrivial = sqClass(s)
	en, r := checkEdgeNeighbors(x, s)
	if r.Err != "" {
		return r
	}
	if r = checkSharedVertices(x, s, en); r.Err != "" {
		return r
	}
	nl := s.L + c.NbrDelta
	if nl > 30 {
		nl = 30
	}
	an, r := checkAllNeighbors(x, s, nl)
	if r.Err != "" {
		return r
	}
	if nl-s.L <= 2 {
		if r = checkSharedVertices(x, s, an); r.Err != "" {
			return r
		}
	}
	// documented nil results
	if s.L > 0 && x.AllNeighbors(s.L-1) != nil {
		return fail("all-neighbors-nil", "AllNeighbors(level-1) of %v is not nil", x)
	}
	if x.AllNeighbors(31) != nil {
		return fail("all-neighbors-nil", "AllNeighbors(31) of %v is not nil", x)
	}
	if s.L >= 1 {
		vl := c.VtxLevel % s.L
		vn, r := checkVertexNeighbors(x, s, vl)
		if r.Err != "" {
			return r
		}
		o.Counts = map[string]int{fmt.Sprintf("vertex_neighbors=%d", len(vn)): 1}
	}
	return o
}

// ------------------------------------------------------------------ exhaustive enumeration of one face at one level

type blockCase struct{ Face, Level int }

func maxExhaustiveLevel() int {
	if ev.Thorough() {
		return 9
	}
	return 7
}

func genBlock(t *rapid.T) blockCase {
	// The driver's shards split the blocks among themselves (block ≡ shard mod
	// shards) so that no block is enumerated twice and every block is certain to
	// be drawn; which block of its share a shard takes next is a rapid draw.
	nb := 6 * (maxExhaustiveLevel() + 1)
	shards, shard := envInt("VERIF_SHARDS", 1), envInt("VERIF_SHARD", 0)
	if shards < 1 || shards > nb || shard < 0 || shard >= shards {
		shards, shard = 1, 0
	}
	cnt := (nb - shard + shards - 1) / shards // blocks shard, shard+shards, … < nb
	k := shard + shards*int(uni(t, "block")%uint64(cnt))
	return blockCase{Face: k % 6, Level: k / 6}
}

func envInt(k string, d int) int {
	if v, err := strconv.Atoi(os.Getenv(k)); err == nil {
		return v
	}
	return d
}

var blockDone sync.Map // blockCase -> ids enumerated (passing blocks only)

func checkBlock(c blockCase) ev.Outcome {
	o := ev.Outcome{}
	if c.Face < 0 || c.Face > 5 || c.Level < 0 || c.Level > 9 {
		o.Skip = true
		return o
	}
	o.Class = fmt.Sprintf("L%d", c.Level)
	o.NonTrivial = true
	o.Counts = map[string]int{fmt.Sprintf("visits.f%d.L%d", c.Face, c.Level): 1}
	if _, ok := blockDone.Load(c); ok {
		return o
	}
	per := uint64(1) << uint(2*c.Level)
	side := int64(1) << uint(c.Level)
	seen := make([]bool, per)
	for k := uint64(0); k < per; k++ {
		id := mFromIndex(c.Level, uint64(c.Face)*per+k)
		x := s2.CellID(id)
		if !x.IsValid() || x.Level() != c.Level || x.Face() != c.Face {
			return failO(o, "accessors", "id %#x (index %d of face %d level %d): IsValid %v Level %d Face %d", id, k, c.Face, c.Level, x.IsValid(), x.Level(), x.Face())
		}
		s, r := checkLattice(id, false)
		if r.Err != "" {
			return failO(o, r.Finding, "%s", r.Err)
		}
		if s.F != c.Face {
			return failO(o, "face-mismatch", "cell %v reads as square %v", x, s)
		}
		cell := s.A*side + s.B
		if seen[cell] {
			return failO(o, "square-not-injective", "two cells of face %d level %d read as square %v (second: %v)", c.Face, c.Level, s, x)
		}
		seen[cell] = true
		if s2.CellIDFromToken(x.ToToken()) != x || s2.CellIDFromString(x.String()) != x || x.String() != mString(id) {
			return failO(o, "token-roundtrip", "token/string round trip of %v", x)
		}
		if _, r = checkEdgeNeighbors(x, s); r.Err != "" {
			return failO(o, r.Finding, "%s", r.Err)
		}
		for nl := c.Level; nl <= c.Level+3; nl++ {
			nb, r := checkAllNeighbors(x, s, nl)
			if r.Err != "" {
				return failO(o, r.Finding, "%s", r.Err)
			}
			if nl == c.Level {
				if r = checkSharedVertices(x, s, nb); r.Err != "" {
					return failO(o, r.Finding, "%s", r.Err)
				}
			}
		}
		for vl := c.Level - 1; vl >= 0 && vl >= c.Level-3; vl-- {
			if _, r = checkVertexNeighbors(x, s, vl); r.Err != "" {
				return failO(o, r.Finding, "%s", r.Err)
			}
		}
	}
	// per ids are pairwise distinct squares of a face with per squares: a bijection
	blockDone.Store(c, true)
	o.Counts["ids_enumerated"] = int(per)
	return o
}

// ------------------------------------------------------------------ lat/lng entry points

type llCase struct {
	LatDeg, LngDeg float64
	ID             uint64
}

func genLL(t *rapid.T) llCase {
	var lat, lng float64
	special := []float64{0, 90, -90, 45, -45, 35.264389682754654, -35.264389682754654, 180, -180, 135, -135, 1e-300, -1e-300, 89.99999999999999}
	switch rapid.IntRange(0, 3).Draw(t, "m") {
	case 0:
		lat = rapid.SampledFrom(special).Draw(t, "slat")
		lng = rapid.SampledFrom(special).Draw(t, "slng") * 2
	case 1:
		if rapid.Bool().Draw(t, "simple") {
			lat = rapid.Float64Range(-90, 90).Draw(t, "lat")
			lng = rapid.Float64Range(-180, 180).Draw(t, "lng")
		} else {
			lat = uniFloat(t, "ulat", -90, 90)
			lng = uniFloat(t, "ulng", -180, 180)
		}
	case 2:
		lat = float64(rapid.IntRange(-900000000, 900000000).Draw(t, "e7lat")) / 1e7
		lng = float64(rapid.IntRange(-1800000000, 1800000000).Draw(t, "e7lng")) / 1e7
	default:
		ll := s2.LatLngFromPoint(snapped(t, "p"))
		lat, lng = ll.Lat.Degrees(), ll.Lng.Degrees()
	}
	if lat > 90 {
		lat = 90
	}
	if lat < -90 {
		lat = -90
	}
	if lng > 180 {
		lng = 180
	}
	if lng < -180 {
		lng = -180
	}
	return llCase{lat, lng, uint64(genCell(t, "id"))}
}

func checkLL(c llCase) ev.Outcome {
	o := ev.Outcome{}
	ll := s2.LatLngFromDegrees(c.LatDeg, c.LngDeg)
	if !ll.IsValid() || !mValid(c.ID) {
		o.Skip = true
		return o
	}
	id := s2.CellIDFromLatLng(ll)
	if !mValid(uint64(id)) || mLevel(uint64(id)) != 30 {
		return fail("leaf-invalid", "CellIDFromLatLng(%v) = %#x", ll, uint64(id))
	}
	p := s2.PointFromLatLng(ll)
	cell := s2.CellFromLatLng(ll)
	if cell.ID() != id || s2.CellFromPoint(p).ID() != id {
		return fail("latlng-entry-points", "CellIDFromLatLng, CellFromLatLng and CellFromPoint(PointFromLatLng) disagree for %v", ll)
	}
	if !cell.ContainsPoint(p) {
		// same narrow classification as in point_to_leaf_and_ancestors
		finding := "leaf-not-containing"
		exf := -1.0
		if pu, pv, pw := toUVW(cell.Face(), [3]float64{p.X, p.Y, p.Z}); pw > 0 {
			b := cell.BoundUV()
			ex := excess(exactRatio(pu, pw), b.X.Lo, b.X.Hi)
			if e2 := excess(exactRatio(pv, pw), b.Y.Lo, b.Y.Hi); e2.Cmp(ex) > 0 {
				ex = e2
			}
			exf, _ = ex.Float64()
			if ex.Cmp(ratOf(0.75*eps)) > 0 && ex.Cmp(rat2eps) <= 0 {
				finding = "contains-margin-below-roundoff"
			}
		}
		return fail(finding, "CellFromLatLng(%v) does not contain PointFromLatLng(%v) (exact (u,v) is %.3g·eps outside its BoundUV)", ll, ll, exf/eps)
	}
	ang := float64(p.Angle(id.Point().Vector))
	o.Ratios = map[string]float64{"angle_to_leaf_centre/leaf_max_diag": ang / (2.438654594434021 * 0x1p-30)}
	if ang > 2.438654594434021*0x1p-30 {
		return failO(o, "leaf-far", "PointFromLatLng(%v) is %.3g rad from the centre of its leaf cell", ll, ang)
	}
	polar := math.Abs(c.LatDeg) == 90
	dateline := math.Abs(c.LngDeg) == 180
	switch {
	case polar:
		o.Class = "pole"
	case dateline:
		o.Class = "antimeridian"
	default:
		o.Class = "generic"
	}
	o.NonTrivial = true
	// id -> LatLng -> id
	x := s2.CellID(c.ID)
	xl := x.LatLng()
	if !xl.IsValid() {
		return failO(o, "latlng-invalid", "(%v).LatLng() = %v is not valid", x, xl)
	}
	if got := s2.CellIDFromLatLng(xl).Parent(x.Level()); got != x {
		return failO(o, "latlng-roundtrip", "CellIDFromLatLng((%v).LatLng()).Parent(%d) = %v", x, x.Level(), got)
	}
	d := float64(s2.PointFromLatLng(xl).Angle(x.Point().Vector))
	o.Ratios["latlng_vs_point_centre/1e-14rad"] = d / 1e-14
	if d > 1e-14 {
		return failO(o, "latlng-centre", "(%v).LatLng() is %.3g rad away from (%v).Point()", x, d, x)
	}
	return o
}

func init() {
	ev.Define("point_to_leaf_and_ancestors", ev.Options{
		Rule:  "unit points: 1/2 'snapped' (minor coordinates re-set to fl(boundary·major) ±0..8 ulps for boundary values of cells of every level incl. face edges, cube corners, u=0), rest uniform/cube-symmetric/exponent-spread/plane/cell-derived ±4 ulps. Oracle: exact rational (u,v)=(y/x,…) against the leaf's BoundUV (bound 2·eps outside, stated before running), independent lattice cell via integer square roots of the exact inverse quadratic transform, bit model of Parent, lattice nesting of all 31 ancestors, ContainsPoint at all 31 levels, two-sided ContainsPoint of an edge-neighbour/arbitrary cell against exact membership (exactly inside -> true, more than 8·eps outside or wrong hemisphere -> false). Non-trivial = exact u or v within 4·2^-52 of a boundary of the leaf cell.",
		Quick: 400000, Thorough: 24000000}, genPtCase, checkPoint)
	ev.Define("id_algebra", ev.Options{
		Rule:  "valid ids of all levels (uniform, path-biased, lattice-biased to face edges/corners) with a related second id (ancestor, descendant, range ends, curve neighbours, same-prefix) and step counts (small, ±k·N±r, to/past both ends, int64 extremes). Oracle: curve-index model (cell = k-th of its level; id=(2k+1)·4^(30-l)), big-integer Advance/AdvanceWrap, leaf-interval Contains/Intersects, brute-force CommonAncestorLevel and MaxTile by its documented definition plus the documented tiling loop. All cases count as non-trivial; class = level and relation.",
		Quick: 300000, Thorough: 12000000}, genIDCase, checkID)
	ev.Define("token_string", ev.Options{
		Rule:  "arbitrary uint64 (valid ids, 0, ^0, face 6/7, lsb on odd bit, one flipped bit, random) and texts (tokens/strings of them truncated, zero-padded to >16, upper-cased, with inserted/replaced bad characters incl. NUL and non-ASCII, leading zeros, random hex and digit strings). Oracle: separately written formatter/parsers (hex right-padded with zeros; malformed -> 0). Non-trivial = malformed text or a token that is not the canonical one.",
		Quick: 200000, Thorough: 6000000}, genTokCase, checkTok)
	ev.Define("hierarchy_on_lattice", ev.Options{
		Rule:  "one valid id of any level; its lattice square is read from BoundUV by bit-exact match with the published transform. Integer facts: parent square = containing quadrant, four children = four distinct quadrants with consecutive ones sharing a side, next cell along the curve (NextWrap, incl. 5 face transitions and the wrap) shares a full side on the cube surface, centre point maps back to the cell and lies on the centre lattice line exactly, IJ/UV edge coordinates and sizes, Cell.Children == CellFromCellID(child) bit for bit. Non-trivial = cell on a face edge / cube corner or the curve step leaves the parent's quadrant or the face.",
		Quick: 300000, Thorough: 12000000}, genCellCase, checkHierarchy)
	ev.Define("neighbors", ev.Options{
		Rule:  "one valid id of any level (1/3 uniform/path-biased, 2/3 lattice-biased to face edges and cube corners), AllNeighbors level +0..+3 (1/10: +4..+6), VertexNeighbors level < cell level. Oracle: integer cube-surface model — the set of all squares of the requested level whose closed square meets the cell's closed square (or the closest ancestor vertex), enumerated over all six faces; reported set must equal it (sound and complete), ids valid, of the requested level, leaf-interval disjoint; EdgeNeighbors[k] must contain side k and be 4 distinct cells; Cell.Vertex of cells sharing a lattice corner bit-identical. Non-trivial = the cell touches a face edge or cube corner (wrap path).",
		Quick: 250000, Thorough: 12000000}, genNbrCase, checkNeighbors)
	ev.Define("exhaustive_face_level", ev.Options{
		Rule:  "Case = (face, level), level 0..7 quick / 0..9 thorough; Check enumerates EVERY id of that face and level: id -> square is injective onto the 4^level squares of the face (hence bijective), parent quadrant, curve continuity to the next id (last id of a face steps to the next face), centre round trip, token/string round trip, EdgeNeighbors, AllNeighbors at +0..+3 and VertexNeighbors at -1..-3 against the cube-surface model, shared vertices bit-identical. Counts 'visits.fF.LL' show which blocks were drawn (complete enumeration only if all are > 0); results of passing blocks are cached per process.",
		Quick: 1600, Thorough: 3200}, genBlock, checkBlock)
	ev.Define("latlng_entry_points", ev.Options{
		Rule:  "valid LatLngs (poles, antimeridian, special angles, uniform, E7-rounded, lat/lng of boundary-snapped points) and a valid id. CellIDFromLatLng/CellFromLatLng/CellFromPoint∘PointFromLatLng agree, the leaf contains the point and its centre is within one leaf diagonal; id.LatLng() is valid, maps back into the cell and is within 1e-14 rad (a priori bound, DESIGN 2.5) of id.Point().",
		Quick: 100000, Thorough: 3000000}, genLL, checkLL)
}
