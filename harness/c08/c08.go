// Package c08: closest and furthest edge queries equal an exhaustive scan.
package c08

import (
	"fmt"
	"math"
	"os"
	"reflect"
	"sort"
	"strings"

	"github.com/golang/geo/r3"
	"github.com/golang/geo/s1"
	"github.com/golang/geo/s2"

	"verifharness/internal/ev"
	"verifharness/internal/exact"
	"verifharness/internal/gen"
)

func thorough() bool { return ev.Thorough() }

// ---------------------------------------------------------------- hook: which branch ran

var hookLog []string

func init() {
	s2.VerifHook = func(name string) {
		if strings.HasPrefix(name, "edgequery.") {
			hookLog = append(hookLog, name)
		}
	}
}

// ---------------------------------------------------------------- built index + model

type cand struct {
	s, e int32
	d    s1.ChordAngle
}

type side struct {
	spec   indexCase
	shapes []s2.Shape
	index  *s2.ShapeIndex
	edges  [][]s2.Edge
	nEdges int
	// lazily computed index structure facts
	infoDone  bool
	faces     []int             // faces spanned by the index cells, ascending
	topCells  int               // number of top-level cells a correct covering has
	edgeFaces map[[2]int32]uint // face bitmask of the index cells holding (shape, edge)
	// footprint of the truncated covering (see classify): does (shape, edge) have a
	// presence in an index cell that covering cannot reach / can reach
	edgeUnreach map[[2]int32]bool
	edgeReach   map[[2]int32]bool
	anyUnreach  bool
}

func buildSide(ic indexCase) *side {
	sd := &side{spec: ic, index: s2.NewShapeIndex()}
	for _, sc := range ic.Shapes {
		sh := sc.build()
		sd.shapes = append(sd.shapes, sh)
		sd.index.Add(sh)
		n := sh.NumEdges()
		es := make([]s2.Edge, n)
		for i := 0; i < n; i++ {
			es[i] = sh.Edge(i)
		}
		sd.edges = append(sd.edges, es)
		sd.nEdges += n
	}
	return sd
}

func (sd *side) info() {
	if sd.infoDone {
		return
	}
	sd.infoDone = true
	sd.edgeFaces = map[[2]int32]uint{}
	sd.edgeUnreach = map[[2]int32]bool{}
	sd.edgeReach = map[[2]int32]bool{}
	cells := s2.VerifIndexCells(sd.index)
	fm := uint(0)
	perFace := map[int]int{}
	for _, c := range cells {
		f := uint(c.ID.Face())
		fm |= 1 << f
		perFace[int(f)]++
	}
	for f := 0; f < 6; f++ {
		if fm&(1<<uint(f)) != 0 {
			sd.faces = append(sd.faces, f)
		}
	}
	// A covering that stops after its first top-level cell and covers the rest
	// with the face cell of the next index cell (as a non-index cell) reaches:
	// everything on the first spanned face, the proper descendants of the second
	// face cell, and nothing on a third or later face. (With one or two spanned
	// faces the remainder is covered correctly.)
	reach := func(id s2.CellID) bool {
		if len(sd.faces) < 3 {
			return true
		}
		switch id.Face() {
		case sd.faces[0]:
			return true
		case sd.faces[1]:
			return id.Level() > 0
		}
		return false
	}
	for _, c := range cells {
		f := uint(c.ID.Face())
		r := reach(c.ID)
		for _, cs := range c.Shapes {
			for _, e := range cs.Edges {
				k := [2]int32{cs.ShapeID, int32(e)}
				sd.edgeFaces[k] |= 1 << f
				if r {
					sd.edgeReach[k] = true
				} else {
					sd.edgeUnreach[k] = true
					sd.anyUnreach = true
				}
			}
		}
	}
	switch {
	case len(cells) == 0:
		sd.topCells = 0
	case len(cells) == 1:
		sd.topCells = 1
	default:
		first, last := cells[0].ID, cells[len(cells)-1].ID
		level := 0
		if l, ok := first.CommonAncestorLevel(last); ok {
			level = l + 1
		}
		seen := map[s2.CellID]bool{}
		for _, c := range cells {
			seen[c.ID.Parent(level)] = true
		}
		sd.topCells = len(seen)
	}
}

// ---------------------------------------------------------------- exact containment (interiors)

func vecs(l []gen.P) []r3.Vector {
	out := make([]r3.Vector, len(l))
	for i, p := range l {
		out[i] = p.Pt().Vector
	}
	return out
}

// containsPoint: semi-open containment of p in the two-dimensional shape sc,
// by exact crossing parity from the construction-known point.
func containsPoint(sc shapeCase, chains [][]r3.Vector, p s2.Point) bool {
	known := sc.Known.Pt()
	in := sc.KnownIn
	if known.Dot(p.Vector) < -0.5 {
		// route through an intermediate point so no leg is close to antipodal
		mid := gen.Fix(s2.Point{Vector: known.Ortho()}, xAxis)
		if mid.Dot(p.Vector) < -0.5 {
			mid = gen.Fix(s2.Point{Vector: known.Cross(mid.Vector).Normalize()}, xAxis)
		}
		in = exact.ParityContains(chains, known.Vector, in, mid.Vector)
		known = mid
	}
	return exact.ParityContains(chains, known.Vector, in, p.Vector)
}

func (sd *side) chains(i int) [][]r3.Vector {
	var out [][]r3.Vector
	for _, l := range sd.spec.Shapes[i].Loops {
		out = append(out, vecs(l))
	}
	return out
}

// containing returns the ids of the two-dimensional shapes that contain p.
func (sd *side) containing(p s2.Point) []int32 {
	var out []int32
	for i, sc := range sd.spec.Shapes {
		if sc.full() {
			out = append(out, int32(i))
			continue
		}
		if !sc.dim2() || sc.numEdges() == 0 {
			continue
		}
		if containsPoint(sc, sd.chains(i), p) {
			out = append(out, int32(i))
		}
	}
	return out
}

// ---------------------------------------------------------------- distance primitives of the scan

func neg(p s2.Point) s2.Point { return s2.Point{Vector: p.Mul(-1)} }

// pairMin: minimum distance between edges a and b if it is below m (the documented
// rule: zero if they cross, otherwise attained at an endpoint of one of them).
func pairMin(a0, a1, b0, b1 s2.Point, m s1.ChordAngle) (s1.ChordAngle, bool) {
	if m == 0 {
		return 0, false
	}
	if exact.CrossingSign(a0.Vector, a1.Vector, b0.Vector, b1.Vector) == exact.XCross {
		return 0, true
	}
	var k1, k2, k3, k4 bool
	m, k1 = s2.UpdateMinDistance(a0, b0, b1, m)
	m, k2 = s2.UpdateMinDistance(a1, b0, b1, m)
	m, k3 = s2.UpdateMinDistance(b0, a0, a1, m)
	m, k4 = s2.UpdateMinDistance(b1, a0, a1, m)
	return m, k1 || k2 || k3 || k4
}

// pairMax: maximum distance between edges a and b if it is above m (π if one
// crosses the reflection of the other).
func pairMax(a0, a1, b0, b1 s2.Point, m s1.ChordAngle) (s1.ChordAngle, bool) {
	if m == s1.StraightChordAngle {
		return m, false
	}
	if exact.CrossingSign(a0.Vector, a1.Vector, b0.Mul(-1), b1.Mul(-1)) == exact.XCross {
		return s1.StraightChordAngle, true
	}
	var k1, k2, k3, k4 bool
	m, k1 = s2.UpdateMaxDistance(a0, b0, b1, m)
	m, k2 = s2.UpdateMaxDistance(a1, b0, b1, m)
	m, k3 = s2.UpdateMaxDistance(b0, a0, a1, m)
	m, k4 = s2.UpdateMaxDistance(b1, a0, a1, m)
	return m, k1 || k2 || k3 || k4
}

func mid(a, b s2.Point) s2.Point { return s2.Point{Vector: a.Add(b.Vector).Normalize()} }

// ---------------------------------------------------------------- targets

type tgt struct {
	kind string
	a, b s2.Point
	cell s2.Cell
	bs   *side // index target
	// index target: per indexed edge true distance (L-independent), lazily
	dIdx map[[2]int32]candOpt
}

type candOpt struct {
	d  s1.ChordAngle
	ok bool
}

func mkTgt(tc targetCase) *tgt {
	tg := &tgt{kind: tc.Kind, a: tc.A.Pt(), b: tc.B.Pt()}
	switch tc.Kind {
	case "cell":
		tg.cell = s2.CellFromCellID(s2.CellID(tc.Cell))
	case "index":
		tg.bs = buildSide(*tc.Idx)
		tg.dIdx = map[[2]int32]candOpt{}
	}
	return tg
}

// make returns the library target object (a fresh one for every call: targets
// of the index kind hold a query of their own).
func (tg *tgt) make(furthest bool) any {
	switch tg.kind {
	case "point":
		if furthest {
			return s2.NewMaxDistanceToPointTarget(tg.a)
		}
		return s2.NewMinDistanceToPointTarget(tg.a)
	case "edge":
		if furthest {
			return s2.NewMaxDistanceToEdgeTarget(s2.Edge{V0: tg.a, V1: tg.b})
		}
		return s2.NewMinDistanceToEdgeTarget(s2.Edge{V0: tg.a, V1: tg.b})
	case "cell":
		if furthest {
			return s2.NewMaxDistanceToCellTarget(tg.cell)
		}
		return s2.NewMinDistanceToCellTarget(tg.cell)
	default:
		if furthest {
			return s2.NewMaxDistanceToShapeIndexTarget(tg.bs.index)
		}
		return s2.NewMinDistanceToShapeIndexTarget(tg.bs.index)
	}
}

// reps: the documented representative points whose containment decides the
// interior results: the point, the edge midpoint, the cell centre, the first
// vertex of every chain of a target index (their antipodes for furthest).
func (tg *tgt) reps(furthest bool) []s2.Point {
	var ps []s2.Point
	switch tg.kind {
	case "point":
		ps = []s2.Point{tg.a}
	case "edge":
		ps = []s2.Point{mid(tg.a, tg.b)}
	case "cell":
		ps = []s2.Point{tg.cell.Center()}
	default:
		for i, sh := range tg.bs.shapes {
			for c := 0; c < sh.NumChains(); c++ {
				ch := sh.Chain(c)
				if ch.Length == 0 {
					continue
				}
				ps = append(ps, sh.Edge(ch.Start).V0)
			}
			if tg.bs.spec.Shapes[i].full() {
				// a region without edges is represented by its reference point
				ps = append(ps, s2.OriginPoint())
			}
		}
	}
	if furthest {
		for i := range ps {
			ps[i] = neg(ps[i])
		}
	}
	return ps
}

// idxDist: distance from indexed edge e to the target index: zero (π for
// furthest) if the edge midpoint (its antipode) lies in a target polygon — the
// target's own query includes interiors — otherwise the best edge pair.
// reachableOnly limits the target edges to those held only by index cells the
// truncated covering still reaches (used only to attribute a failure).
func (tg *tgt) idxDist(e s2.Edge, furthest bool, reachableOnly bool) (s1.ChordAngle, bool) {
	m := mid(e.V0, e.V1)
	if furthest {
		if len(tg.bs.containing(neg(m))) > 0 {
			return s1.StraightChordAngle, true
		}
	} else if len(tg.bs.containing(m)) > 0 {
		return 0, true
	}
	best := s1.InfChordAngle()
	if furthest {
		best = s1.NegativeChordAngle
	}
	found := false
	for si, es := range tg.bs.edges {
		for ei, te := range es {
			if reachableOnly {
				tg.bs.info()
				// an edge that also lives in an unreached cell may have its best
				// part there; the reached cells holding it are then pruned legitimately
				if tg.bs.edgeUnreach[[2]int32{int32(si), int32(ei)}] {
					continue
				}
			}
			var ok bool
			if furthest {
				best, ok = pairMax(e.V0, e.V1, te.V0, te.V1, best)
			} else {
				best, ok = pairMin(e.V0, e.V1, te.V0, te.V1, best)
			}
			found = found || ok
		}
	}
	return best, found
}

// edgeDist: does indexed edge (s,e) pass limit L, and at what distance.
func (tg *tgt) edgeDist(s, ei int32, e s2.Edge, furthest bool, L s1.ChordAngle) (s1.ChordAngle, bool) {
	switch tg.kind {
	case "point":
		if furthest {
			return s2.UpdateMaxDistance(tg.a, e.V0, e.V1, L)
		}
		return s2.UpdateMinDistance(tg.a, e.V0, e.V1, L)
	case "edge":
		if furthest {
			return pairMax(tg.a, tg.b, e.V0, e.V1, L)
		}
		return pairMin(tg.a, tg.b, e.V0, e.V1, L)
	case "cell":
		if furthest {
			d := tg.cell.MaxDistanceToEdge(e.V0, e.V1)
			return d, L < d
		}
		d := tg.cell.DistanceToEdge(e.V0, e.V1)
		return d, d < L
	default:
		key := [2]int32{s, ei}
		co, have := tg.dIdx[key]
		if !have {
			co.d, co.ok = tg.idxDist(e, furthest, false)
			tg.dIdx[key] = co
		}
		if !co.ok {
			return L, false
		}
		if furthest {
			return co.d, L < co.d
		}
		return co.d, co.d < L
	}
}

// ---------------------------------------------------------------- ordering

func zeroOf(furthest bool) s1.ChordAngle {
	if furthest {
		return s1.StraightChordAngle
	}
	return 0
}

func infOf(furthest bool) s1.ChordAngle {
	if furthest {
		return s1.NegativeChordAngle
	}
	return s1.InfChordAngle()
}

// better: strictly better distance (closer, or further for furthest).
func better(furthest bool, a, b s1.ChordAngle) bool {
	if furthest {
		return a > b
	}
	return a < b
}

func candLess(furthest bool, a, b cand) bool {
	if a.d != b.d {
		return better(furthest, a.d, b.d)
	}
	if a.s != b.s {
		return a.s < b.s
	}
	return a.e < b.e
}

func sortCands(furthest bool, c []cand) {
	sort.Slice(c, func(i, j int) bool { return candLess(furthest, c[i], c[j]) })
}

// ---------------------------------------------------------------- the scan

// scan returns every indexed edge that passes limit L with its distance, and
// the interior entries (one per containing polygon), both sorted.
func scan(sd *side, tg *tgt, furthest bool, L s1.ChordAngle, interiors bool) (edges, ints []cand) {
	if L == zeroOf(furthest) {
		return nil, nil
	}
	for si, es := range sd.edges {
		for ei, e := range es {
			if d, ok := tg.edgeDist(int32(si), int32(ei), e, furthest, L); ok {
				edges = append(edges, cand{int32(si), int32(ei), d})
			}
		}
	}
	sortCands(furthest, edges)
	if interiors {
		seen := map[int32]bool{}
		for _, p := range tg.reps(furthest) {
			for _, id := range sd.containing(p) {
				if !seen[id] {
					seen[id] = true
					ints = append(ints, cand{id, -1, zeroOf(furthest)})
				}
			}
		}
		sortCands(furthest, ints)
	}
	return edges, ints
}

func merged(furthest bool, edges, ints []cand) []cand {
	all := append(append([]cand{}, ints...), edges...)
	sortCands(furthest, all)
	return all
}

// ---------------------------------------------------------------- options

const unlimited = math.MaxInt32

func (o optCase) k() int {
	if o.MaxResults <= 0 {
		return unlimited
	}
	return o.MaxResults
}

func (o optCase) interiors() bool { return o.Interiors != 2 }

// resolveLimit turns the symbolic limit into a ChordAngle using the sorted
// distinct true distances (scan without limit).
func (o optCase) resolveLimit(furthest bool, distinct []s1.ChordAngle) (s1.ChordAngle, bool) {
	switch o.LimKind {
	case 1:
		return s1.ChordAngle(o.LimAbs), true
	case 2:
		if len(distinct) == 0 {
			return 0, false
		}
		d := float64(distinct[o.LimRank%len(distinct)])
		d = gen.Ulps(d, o.LimUlps)
		if furthest {
			if d > 4 {
				d = 4
			}
			if d < 0 {
				d = -1
			}
		} else {
			if d < 0 {
				d = 0
			}
			if d > 4 {
				d = 4
			}
		}
		return s1.ChordAngle(d), true
	}
	return 0, false
}

func (o optCase) build(furthest bool, L s1.ChordAngle, haveL bool) *s2.EdgeQueryOptions {
	var q *s2.EdgeQueryOptions
	if furthest {
		q = s2.NewFurthestEdgeQueryOptions()
	} else {
		q = s2.NewClosestEdgeQueryOptions()
	}
	if o.MaxResults > 0 {
		q.MaxResults(o.MaxResults)
	}
	if haveL {
		q.DistanceLimit(L)
	}
	if o.MaxError > 0 {
		q.MaxError(s1.ChordAngle(o.MaxError))
	}
	switch o.Interiors {
	case 1:
		q.IncludeInteriors(true)
	case 2:
		q.IncludeInteriors(false)
	}
	if o.Brute {
		q.UseBruteForce(true)
	}
	return q
}

func newQuery(sd *side, furthest bool, opts *s2.EdgeQueryOptions) *s2.EdgeQuery {
	if furthest {
		return s2.NewFurthestEdgeQuery(sd.index, opts)
	}
	return s2.NewClosestEdgeQuery(sd.index, opts)
}

// ---------------------------------------------------------------- calling the library

type callOut struct {
	res      []cand
	dist     s1.ChordAngle
	b        bool
	panicked string
	outer    string // edgequery.bruteForce | edgequery.optimized | "" (returned before the branch)
	innerOpt int
	innerBF  int
}

// call invokes a method of the query through reflection (the target parameter
// type is an unexported interface, so it cannot be named here).
func call(q *s2.EdgeQuery, method string, args ...any) (out callOut) {
	hookLog = hookLog[:0]
	defer func() {
		if r := recover(); r != nil {
			out.panicked = fmt.Sprint(r)
		}
		if len(hookLog) > 0 {
			out.outer = hookLog[0]
			for _, h := range hookLog[1:] {
				if h == "edgequery.optimized" {
					out.innerOpt++
				} else {
					out.innerBF++
				}
			}
		}
	}()
	in := make([]reflect.Value, len(args))
	for i, a := range args {
		in[i] = reflect.ValueOf(a)
	}
	rv := reflect.ValueOf(q).MethodByName(method).Call(in)
	switch method {
	case "FindEdges":
		rs := rv[0].Interface().([]s2.EdgeQueryResult)
		for _, r := range rs {
			out.res = append(out.res, cand{r.ShapeID(), r.EdgeID(), r.Distance()})
		}
	case "Distance":
		out.dist = rv[0].Interface().(s1.ChordAngle)
	default:
		out.b = rv[0].Bool()
	}
	return out
}

// ---------------------------------------------------------------- tolerances (written down before running)

const dblEps = 0x1p-52

// pruneTol: the search prunes a cell when the computed lower bound of the
// distance from the target to the cell is not below the limit. No Go doc bound
// exists for the cell-distance computations; upstream's test suite states
// 1e-15 rad (kMaxPruningError). A result may be missing only if its distance
// is within this tolerance of the limit that pruned it: δ = 3e-15 rad
// expressed in squared chord length at distance d, plus 8ε relative.
func pruneTol(d s1.ChordAngle) float64 {
	x := math.Abs(float64(d))
	if x > 4 {
		x = 4
	}
	const delta = 3e-15
	return 2*math.Sqrt(x)*delta + delta*delta + 8*dblEps*x
}

// updateMinDistanceMaxError re-implements the documented error bound of
// UpdateMinDistance from its doc formula (edge_distances.go).
func updateMinDistanceMaxError(d s1.ChordAngle) float64 {
	interior := 0.0
	if d < s1.RightChordAngle {
		b := math.Min(1.0, 0.5*float64(d))
		a := math.Sqrt(b * (2 - b))
		s3 := math.Sqrt(3)
		interior = ((2.5+2*s3+8.5*a)*a + (2+2*s3/3+6.5*(1-b))*b + (23+16/s3)*dblEps) * dblEps
	}
	return math.Max(interior, d.MaxPointError())
}

// ---------------------------------------------------------------- comparing FindEdges with the scan

type failure struct {
	kind    string // panic | unsorted | too-many | spurious | wrong-distance | missing | mismatch | error-bound
	msg     string
	absent  []cand // expected entries that are not in the result
	finding string
}

type qctx struct {
	sd       *side
	tg       *tgt
	furthest bool
	o        optCase
	L        s1.ChordAngle
	haveL    bool
	out      callOut
	// largest (limit − distance)/tolerance among the absences tolerated as pruning rounding
	maxGapRatio float64
	// Distance() call: the value returned (for attributing a failure)
	distMode bool
	distVal  s1.ChordAngle
}

func (cx *qctx) effL() s1.ChordAngle {
	if cx.haveL {
		return cx.L
	}
	return infOf(cx.furthest)
}

func fmtCands(c []cand, n int) string {
	var sb strings.Builder
	for i, x := range c {
		if i == n {
			fmt.Fprintf(&sb, " …(%d more)", len(c)-n)
			break
		}
		fmt.Fprintf(&sb, " (%d,%d,%.17g)", x.s, x.e, float64(x.d))
	}
	return sb.String()
}

// nearLimit: an expected entry the pruning tolerance allows to be absent.
func (cx *qctx) nearLimit(c cand) bool {
	L := cx.effL()
	if c.e < 0 || L == infOf(cx.furthest) {
		return false
	}
	gap := math.Abs(float64(L) - float64(c.d))
	if gap <= pruneTol(L) {
		if os.Getenv("C08_DEBUG") != "" {
			fmt.Fprintf(os.Stderr, "DEBUG near-limit: kind=%s furthest=%v L=%.17g d=%.17g gap=%.3g tol=%.3g ulps(L)=%.3g opt=%+v\n", cx.tg.kind, cx.furthest, float64(L), float64(c.d), gap, pruneTol(L), gap/(math.Nextafter(float64(L), 10)-float64(L)), cx.o)
		}
		if r := gap / pruneTol(L); r > cx.maxGapRatio {
			cx.maxGapRatio = r
		}
		return true
	}
	return false
}

// compareFind checks one FindEdges result. counts receives tolerance events.
func (cx *qctx) compareFind(got []cand, counts map[string]int, ratios map[string]float64) *failure {
	f, o := cx.furthest, cx.o
	k := o.k()
	approx := o.MaxError > 0
	isIdx := cx.tg.kind == "index"
	optimized := cx.out.outer == "edgequery.optimized"
	L := cx.effL()
	me := s1.ChordAngle(o.MaxError)

	edges, ints := scan(cx.sd, cx.tg, f, L, o.interiors())
	all := merged(f, edges, ints)

	// structure: strictly increasing, at most k
	for i := 1; i < len(got); i++ {
		if !candLess(f, got[i-1], got[i]) {
			return &failure{kind: "unsorted", msg: fmt.Sprintf("results not strictly sorted / duplicate at %d:%s", i, fmtCands(got, 12))}
		}
	}
	dup := map[[2]int32]bool{}
	for _, g := range got {
		if dup[[2]int32{g.s, g.e}] {
			return &failure{kind: "duplicate", msg: fmt.Sprintf("(%d,%d) is reported twice (with different distances):%s", g.s, g.e, fmtCands(got, 12))}
		}
		dup[[2]int32{g.s, g.e}] = true
	}
	if len(got) > k {
		return &failure{kind: "too-many", msg: fmt.Sprintf("%d results with MaxResults=%d", len(got), k)}
	}
	// membership and per-entry distance
	truth := map[[2]int32]s1.ChordAngle{}
	for _, c := range all {
		truth[[2]int32{c.s, c.e}] = c.d
	}
	inGot := map[[2]int32]bool{}
	resort := false
	for _, g := range got {
		inGot[[2]int32{g.s, g.e}] = true
		td, ok := truth[[2]int32{g.s, g.e}]
		if !ok && g.e >= 0 && (k == 1 || isIdx) && int(g.s) < len(cx.sd.edges) && int(g.e) < len(cx.sd.edges[g.s]) {
			// evolving limits: the same primitive may round the other way exactly at the limit
			if ud, uok := cx.tg.edgeDist(g.s, g.e, cx.sd.edges[g.s][g.e], f, infOf(f)); uok &&
				math.Abs(float64(ud)-float64(L)) <= 2*updateMinDistanceMaxError(L) && math.Abs(float64(g.d)-float64(ud)) <= 2*updateMinDistanceMaxError(L) {
				counts["tolerated.rounding-path"]++
				truth[[2]int32{g.s, g.e}] = g.d
				all = append(all, g)
				sortCands(f, all)
				continue
			}
		}
		if !ok {
			return &failure{kind: "spurious", msg: fmt.Sprintf("result (%d,%d,%.17g) is not an edge/interior within the limit %.17g; expected%s", g.s, g.e, float64(g.d), float64(L), fmtCands(all, 8))}
		}
		if g.d == td {
			continue
		}
		if approx && isIdx && g.e >= 0 {
			// the target may stop early: true ≤ reported ≤ true + MaxError, and within the limit
			var bound s1.ChordAngle
			var okb bool
			slack := 2 * updateMinDistanceMaxError(td) // the other rounding path of the same primitive
			if f {
				bound = td.Sub(me)
				okb = float64(g.d) <= float64(td)+slack && float64(g.d) >= float64(bound)*(1-1e-13)-1e-300 && g.d > L
			} else {
				bound = td.Add(me)
				okb = float64(g.d) >= float64(td)-slack && float64(g.d) <= float64(bound)*(1+1e-13)+1e-300 && g.d < L
			}
			if okb {
				continue
			}
			return &failure{kind: "error-bound", msg: fmt.Sprintf("result (%d,%d) distance %.17g outside [true %.17g, true±MaxError %.17g] or beyond limit %.17g", g.s, g.e, float64(g.d), float64(td), float64(bound), float64(L))}
		}
		// evolving limits (MaxResults==1, target index sub-queries) may take a
		// different rounding path of the same primitive: tolerated within twice
		// its documented error, counted.
		if (k == 1 || isIdx) && math.Abs(float64(g.d)-float64(td)) <= 2*updateMinDistanceMaxError(td) {
			counts["tolerated.rounding-path"]++
			for i := range all {
				if all[i].s == g.s && all[i].e == g.e {
					all[i].d = g.d
				}
			}
			resort = true
			continue
		}
		return &failure{kind: "wrong-distance", msg: fmt.Sprintf("result (%d,%d) has distance %.17g, scan gives %.17g", g.s, g.e, float64(g.d), float64(td))}
	}

	if resort {
		sortCands(f, all)
	}
	want := len(all)
	if want > k {
		want = k
	}
	head := all[:want]
	absentOf := func(list []cand) []cand {
		var a []cand
		for _, c := range list {
			if !inGot[[2]int32{c.s, c.e}] {
				a = append(a, c)
			}
		}
		return a
	}

	if approx {
		// order statistics: i-th reported within MaxError of the i-th true
		approxVerdict := func(all []cand) *failure {
			want := len(all)
			if want > k {
				want = k
			}
			head := all[:want]
			if len(got) != want {
				return &failure{kind: "missing", absent: absentOf(head), msg: fmt.Sprintf("%d results, scan has %d within the limit (MaxResults %d, MaxError %.3g); got%s; expected%s", len(got), len(all), k, o.MaxError, fmtCands(got, 8), fmtCands(all, 8))}
			}
			for i, g := range got {
				td := all[i].d
				var bad bool
				var bound s1.ChordAngle
				if f {
					bound = td.Sub(me)
					bad = float64(g.d) < float64(bound)*(1-1e-13)-1e-300 || g.d > td
				} else {
					bound = td.Add(me)
					bad = float64(g.d) > float64(bound)*(1+1e-13)+1e-300 || g.d < td
				}
				if bad && !(math.Abs(float64(g.d)-float64(td)) <= 2*updateMinDistanceMaxError(td)) {
					return &failure{kind: "error-bound", absent: absentOf(head), msg: fmt.Sprintf("result %d has distance %.17g; the %d-th best true distance is %.17g, MaxError %.3g allows up to %.17g", i, float64(g.d), i, float64(td), o.MaxError, float64(bound))}
				}
				if td != 0 && td != 4 && me >= 1e-9 && bound != 0 && bound != 4 {
					r := math.Abs(float64(g.d)-float64(td)) / math.Abs(float64(bound)-float64(td)+1e-300)
					if r > ratios["approx_excess/MaxError"] && !math.IsInf(r, 0) && !math.IsNaN(r) {
						ratios["approx_excess/MaxError"] = r
					}
				}
			}
			return nil
		}
		fl := approxVerdict(all)
		if fl != nil && (optimized || isIdx) {
			// tolerated pruning: absent entries within the pruning tolerance of the limit
			var kept []cand
			for _, c := range all {
				if !inGot[[2]int32{c.s, c.e}] && cx.nearLimit(c) {
					continue
				}
				kept = append(kept, c)
			}
			if len(kept) < len(all) && approxVerdict(kept) == nil {
				counts["tolerated.pruned-near-limit"]++
				if cx.maxGapRatio > ratios["tolerated_gap/pruneTol"] {
					ratios["tolerated_gap/pruneTol"] = cx.maxGapRatio
				}
				return nil
			}
		}
		return fl
	}

	exactList := func(exp []cand) bool {
		if len(got) != len(exp) {
			return false
		}
		for i := range got {
			if got[i] != exp[i] {
				return false
			}
		}
		return true
	}
	distSeq := func(exp []cand) bool {
		if len(got) != len(exp) {
			return false
		}
		for i := range got {
			if got[i].d != exp[i].d {
				return false
			}
		}
		return true
	}

	switch {
	case k == 1:
		// any edge at the optimum (ties are broken by discovery order)
		if len(got) == want && (want == 0 || got[0].d == head[0].d) {
			return nil
		}
		if len(got) == 1 && want == 1 {
			diff := math.Abs(float64(got[0].d) - float64(head[0].d))
			tol := 2 * updateMinDistanceMaxError(head[0].d)
			if optimized {
				tol = math.Max(tol, pruneTol(head[0].d))
			}
			if diff <= tol {
				counts["tolerated.k1-near-tie"]++
				return nil
			}
		}
		if len(got) == 0 && want == 1 && optimized && cx.nearLimit(head[0]) {
			counts["tolerated.pruned-near-limit"]++
			if cx.maxGapRatio > ratios["tolerated_gap/pruneTol"] {
				ratios["tolerated_gap/pruneTol"] = cx.maxGapRatio
			}
			return nil
		}
	case isIdx && k != unlimited:
		// which interiors are reported under a result limit depends on the
		// visiting order of the target's components: distances must agree
		if distSeq(head) {
			return nil
		}
	default:
		if exactList(head) {
			return nil
		}
	}
	// tolerated pruning: drop absent entries that are within the pruning
	// tolerance of the limit and compare again
	if (optimized || isIdx) && k != 1 {
		var kept []cand
		dropped := 0
		for _, c := range all {
			if !inGot[[2]int32{c.s, c.e}] && cx.nearLimit(c) {
				dropped++
				continue
			}
			kept = append(kept, c)
		}
		if dropped > 0 {
			h := kept
			if len(h) > k {
				h = h[:k]
			}
			if (isIdx && k != unlimited && distSeq(h)) || exactList(h) {
				counts["tolerated.pruned-near-limit"]++
				if cx.maxGapRatio > ratios["tolerated_gap/pruneTol"] {
					ratios["tolerated_gap/pruneTol"] = cx.maxGapRatio
				}
				return nil
			}
		}
	}
	kind := "mismatch"
	if len(got) < want {
		kind = "missing"
	}
	return &failure{kind: kind, absent: absentOf(head), msg: fmt.Sprintf("FindEdges differs from the scan (limit %.17g, MaxResults %d): got %d:%s; expected %d:%s", float64(L), k, len(got), fmtCands(got, 10), len(head), fmtCands(head, 10))}
}

// ---------------------------------------------------------------- attributing failures to confirmed defects

// classify gives a failure a narrow class when it matches the footprint of a
// defect confirmed with a standalone program; everything else stays unclassified.
func (cx *qctx) classify(fl *failure) {
	if fl.kind == "panic" {
		fl.finding = "panic"
		return
	}
	// limit − MaxError is not clamped to the valid range: after a result at
	// distance d < MaxError the limit is negative (above 4 for furthest); an edge
	// target that crosses a further edge then reports that limit as the distance.
	if cx.o.MaxError > 0 && (cx.o.k() == 1 || cx.tg.kind == "index") && (fl.kind == "wrong-distance" || fl.kind == "spurious" || fl.kind == "error-bound") {
		for _, g := range cx.out.res {
			if g.e >= 0 && (g.d < 0 || g.d > 4) {
				fl.finding = "maxerror-limit-unclamped"
				return
			}
		}
	}
	// "MaxError != 0" is tested against the zero of the distance type, which for
	// furthest queries is π: with MaxError == π the target still stops early but
	// duplicates are not avoided, so an edge seen in several cells is reported
	// several times with different distances.
	if fl.kind == "duplicate" && cx.furthest && cx.tg.kind == "index" && cx.o.MaxError == 4 && cx.o.k() > 1 && cx.out.outer == "edgequery.optimized" {
		fl.finding = "furthest-maxerror-compared-with-pi"
		return
	}
	optimized := cx.out.outer == "edgequery.optimized"
	isIdx := cx.tg.kind == "index"
	lossy := fl.kind == "missing" || fl.kind == "mismatch" || fl.kind == "wrong-distance" || fl.kind == "error-bound" || fl.kind == "threshold" || fl.kind == "conservative"
	if !lossy {
		return
	}
	// Cell.Distance/MaxDistance return NaN when the target is 90° from the plane of
	// a cell side (edgeDistance takes the square root of 1-pq2 < 0): the cell is
	// then dropped from the search (every comparison with NaN is false).
	if optimized || cx.out.innerOpt > 0 {
		if cls := cx.cellDistanceDefect(); cls != "" {
			fl.finding = cls
			return
		}
	}
	// (6) maybeAddResult: inverted duplicate test drops every edge when duplicates
	// must be avoided (index target, MaxError>0, MaxResults>1, optimized branch).
	// For furthest queries the "MaxError != 0" test compares with the furthest
	// zero distance (π), so duplicates are "avoided" even with MaxError == 0.
	if isIdx && optimized && (cx.o.MaxError > 0 || cx.furthest) && cx.o.k() > 1 && (fl.kind == "missing" || fl.kind == "mismatch") {
		onlyInteriors := true
		for _, g := range cx.out.res {
			if g.e >= 0 {
				onlyInteriors = false
			}
		}
		if onlyInteriors {
			fl.finding = "avoid-duplicates-drops-all"
			return
		}
	}
	// (5) initCovering: only the first top-level cell and one face cell are
	// searched: every absent result lies only in index cells of the 3rd+ face.
	if optimized && len(fl.absent) > 0 {
		cx.sd.info()
		if cx.sd.anyUnreach {
			all, some := true, false
			for _, c := range fl.absent {
				// the edge has a presence in an unreached index cell (the part of it
				// that realises the distance may lie there even if it also touches a
				// reached cell); absences the pruning tolerance allows do not count
				if c.e >= 0 && cx.sd.edgeUnreach[[2]int32{c.s, c.e}] {
					some = true
					continue
				}
				if cx.nearLimit(c) {
					continue
				}
				all = false
				break
			}
			if all && some {
				fl.finding = "covering-break"
				return
			}
		}
	}
	// (5) the same defect inside the target's own query: the target index spans
	// 3+ faces and its optimized branch ran; every wrong distance lies between the
	// truth and the truth over the target edges the truncated covering still reaches.
	if isIdx && cx.out.innerOpt > 0 {
		cx.tg.bs.info()
		if cx.tg.bs.anyUnreach {
			explained := true
			check := func(s, e int32, got s1.ChordAngle, have bool) bool {
				if e < 0 {
					return false
				}
				edge := cx.sd.edges[s][e]
				td, tok := cx.tg.idxDist(edge, cx.furthest, false)
				rd, rok := cx.tg.idxDist(edge, cx.furthest, true)
				if !tok {
					return false
				}
				if !have {
					// absent: allowed if the outer search prunes cells with the target's
					// (then wrong) cell distances, if the restricted target does not pass the
					// limit, or if its distance ranks behind the last reported result of a full list
					if optimized || !rok || !better(cx.furthest, rd, cx.effL()) {
						return true
					}
					if n := len(cx.out.res); n > 0 && n == cx.o.k() {
						// both the entry and the last reported one may be MaxError off
						me2 := s1.ChordAngle(cx.o.MaxError)
						shifted := rd
						if cx.furthest {
							shifted = s1.ChordAngle(float64(rd.Sub(me2).Sub(me2)) * (1 - 1e-13))
						} else {
							shifted = s1.ChordAngle(float64(rd.Add(me2).Add(me2)) * (1 + 1e-13))
						}
						return !better(cx.furthest, shifted, cx.out.res[n-1].d)
					}
					return false
				}
				if got == td {
					return true
				}
				if !rok {
					return true
				}
				// the target's query may itself stop MaxError early
				me := s1.ChordAngle(cx.o.MaxError)
				lo, hi := td, s1.ChordAngle(float64(rd.Add(me))*(1+1e-13))
				if cx.furthest {
					lo, hi = s1.ChordAngle(float64(rd.Sub(me))*(1-1e-13)), td
				}
				if os.Getenv("C08_DEBUG") != "" && !(got >= lo && got <= hi) {
					fmt.Fprintf(os.Stderr, "DEBUG in-target: (%d,%d) got %.17g td %.17g rd %.17g rok %v\n", s, e, float64(got), float64(td), float64(rd), rok)
				}
				return got >= lo && got <= hi
			}
			if cx.distMode {
				// Distance(): the value must lie between the true optimum and the
				// optimum over the target edges the truncated covering still reaches
				// (if the searched index is truncated as well, only over its reached edges)
				var bt, br, brA s1.ChordAngle
				ht, hr, hrA := false, false, false
				cx.sd.info()
				for si, es := range cx.sd.edges {
					for ei, edge := range es {
						if td, ok := cx.tg.idxDist(edge, cx.furthest, false); ok && (!ht || better(cx.furthest, td, bt)) {
							bt, ht = td, true
						}
						if rd, ok := cx.tg.idxDist(edge, cx.furthest, true); ok {
							if !hr || better(cx.furthest, rd, br) {
								br, hr = rd, true
							}
							if !cx.sd.edgeUnreach[[2]int32{int32(si), int32(ei)}] && (!hrA || better(cx.furthest, rd, brA)) {
								brA, hrA = rd, true
							}
						}
					}
				}
				if optimized && cx.sd.anyUnreach {
					// the weaker of the two restricted optima bounds what can be reported
					if !hrA {
						hr = false
					} else if hr && better(cx.furthest, br, brA) {
						br = brA
					}
				}
				me := s1.ChordAngle(cx.o.MaxError)
				switch {
				case !ht:
				case !hr || cx.distVal == infOf(cx.furthest):
					if !hr || !better(cx.furthest, br, cx.effL()) {
						fl.finding = "covering-break-in-target"
					}
				case cx.furthest && cx.distVal <= bt && float64(cx.distVal) >= float64(br.Sub(me))*(1-1e-13):
					fl.finding = "covering-break-in-target"
				case !cx.furthest && cx.distVal >= bt && float64(cx.distVal) <= float64(br.Add(me))*(1+1e-13):
					fl.finding = "covering-break-in-target"
				}
				if fl.finding != "" {
					return
				}
			}
			gotMap := map[[2]int32]s1.ChordAngle{}
			for _, g := range cx.out.res {
				gotMap[[2]int32{g.s, g.e}] = g.d
				if g.e >= 0 && !check(g.s, g.e, g.d, true) {
					explained = false
				}
			}
			for _, c := range fl.absent {
				if _, ok := gotMap[[2]int32{c.s, c.e}]; !ok && c.e >= 0 && !check(c.s, c.e, 0, false) {
					explained = false
				}
			}
			if explained {
				fl.finding = "covering-break-in-target"
				return
			}
		}
	}
	// (7) MinDistanceToShapeIndexTarget.capBound: centre negated. It steers the
	// first-cell shortcut (MaxResults==1) and the search disc (finite limit) of
	// the optimized closest search with an index target.
	if isIdx && optimized && !cx.furthest && (cx.haveL || cx.o.k() == 1) {
		fl.finding = "min-index-target-capbound"
		return
	}
}

// cellDistanceDefect: is the target's distance to an index cell, or to an
// ancestor of one (the cells the search measures), NaN, or refuted by a
// certificate: a minimum distance larger (a maximum distance smaller) than the
// distance to one of the cell's own vertices by more than the pruning tolerance.
// Both come from Cell.edgeDistance when the target is about 90° from the plane
// of a cell side: 1-pq2 is negative (NaN) or cancels to zero (error up to ~1e-8).
func (cx *qctx) cellDistanceDefect() string {
	seen := map[s2.CellID]bool{}
	res := ""
	// f returns the computed bound and a certified bound from the cell's vertices
	visit := func(sd *side, f func(c s2.Cell) (got, cert float64)) {
		for _, ic := range s2.VerifIndexCells(sd.index) {
			for l := ic.ID.Level(); l >= 0 && res != "cell-distance-nan"; l-- {
				id := ic.ID.Parent(l)
				if seen[id] {
					break
				}
				seen[id] = true
				got, cert := f(s2.CellFromCellID(id))
				switch {
				case math.IsNaN(got):
					res = "cell-distance-nan"
				case math.IsNaN(cert):
				case !cx.furthest && got > cert+pruneTol(s1.ChordAngle(cert)):
					res = "cell-distance-overestimate-near-90deg"
				case cx.furthest && got < cert-pruneTol(s1.ChordAngle(cert)):
					res = "cell-distance-overestimate-near-90deg"
				}
			}
		}
	}
	tg, fu := cx.tg, cx.furthest
	vertexCert := func(c s2.Cell, d func(v s2.Point) float64) float64 {
		best := math.NaN()
		for k := 0; k < 4; k++ {
			x := d(c.Vertex(k))
			if math.IsNaN(best) || (!fu && x < best) || (fu && x > best) {
				best = x
			}
		}
		return best
	}
	edgeFn := func(a, b s2.Point) func(c s2.Cell) (float64, float64) {
		return func(c s2.Cell) (float64, float64) {
			if fu {
				return float64(c.MaxDistanceToEdge(a, b)), vertexCert(c, func(v s2.Point) float64 {
					d, _ := s2.UpdateMaxDistance(v, a, b, s1.NegativeChordAngle)
					return float64(d)
				})
			}
			return float64(c.DistanceToEdge(a, b)), vertexCert(c, func(v s2.Point) float64 {
				d, _ := s2.UpdateMinDistance(v, a, b, s1.InfChordAngle())
				return float64(d)
			})
		}
	}
	switch tg.kind {
	case "point":
		visit(cx.sd, func(c s2.Cell) (float64, float64) {
			cert := vertexCert(c, func(v s2.Point) float64 { return float64(s2.ChordAngleBetweenPoints(v, tg.a)) })
			if fu {
				return float64(c.MaxDistance(tg.a)), cert
			}
			return float64(c.Distance(tg.a)), cert
		})
	case "edge":
		visit(cx.sd, edgeFn(tg.a, tg.b))
	case "cell":
		visit(cx.sd, func(c s2.Cell) (float64, float64) {
			cert := vertexCert(c, func(v s2.Point) float64 {
				best := math.NaN()
				for k := 0; k < 4; k++ {
					x := float64(s2.ChordAngleBetweenPoints(v, tg.cell.Vertex(k)))
					if math.IsNaN(best) || (!fu && x < best) || (fu && x > best) {
						best = x
					}
				}
				return best
			})
			if fu {
				return float64(c.MaxDistanceToCell(tg.cell)), cert
			}
			return float64(c.DistanceToCell(tg.cell)), cert
		})
	default:
		// the target's own query measures outer cells against target edges and
		// target cells against outer edges
		for _, es := range tg.bs.edges {
			for _, e := range es {
				seen = map[s2.CellID]bool{}
				visit(cx.sd, edgeFn(e.V0, e.V1))
			}
		}
		for _, es := range cx.sd.edges {
			for _, e := range es {
				seen = map[s2.CellID]bool{}
				visit(tg.bs, edgeFn(e.V0, e.V1))
			}
		}
	}
	return res
}

// ---------------------------------------------------------------- find sub-checks

var knownEnv = func() map[string]bool {
	m := map[string]bool{}
	for _, c := range strings.Split(os.Getenv("VERIF_KNOWN"), ",") {
		if c = strings.TrimSpace(c); c != "" {
			m[c] = true
		}
	}
	return m
}()

// pickFailure prefers a failure that is not tolerated, so that a confirmed
// defect in one query of a case cannot hide a different failure in another.
func pickFailure(fs []*failure) *failure {
	for _, f := range fs {
		if f.finding == "" || !knownEnv[f.finding] {
			return f
		}
	}
	if len(fs) > 0 {
		return fs[0]
	}
	return nil
}

func distinctDistances(c []cand) []s1.ChordAngle {
	var out []s1.ChordAngle
	for i, x := range c {
		if i == 0 || x.d != c[i-1].d {
			out = append(out, x.d)
		}
	}
	return out
}

func checkFind(c findCase) ev.Outcome {
	o := ev.Outcome{Counts: map[string]int{}, Ratios: map[string]float64{}}
	sd := buildSide(c.Index)
	var fails []*failure
	anyOpt, anyApproxMulti := false, false
	for ti, tq := range c.Targets {
		tg := mkTgt(tq.T)
		o.Counts["target."+tg.kind]++
		base, _ := scan(sd, tg, c.Furthest, infOf(c.Furthest), false)
		distinct := distinctDistances(base)
		for oi, oc := range tq.Opts {
			L, haveL := oc.resolveLimit(c.Furthest, distinct)
			cx := &qctx{sd: sd, tg: tg, furthest: c.Furthest, o: oc, L: L, haveL: haveL}
			q := newQuery(sd, c.Furthest, oc.build(c.Furthest, L, haveL))
			cx.out = call(q, "FindEdges", tg.make(c.Furthest))
			o.Counts["queries"]++
			switch cx.out.outer {
			case "edgequery.optimized":
				o.Counts["branch.optimized"]++
				anyOpt = true
			case "edgequery.bruteForce":
				o.Counts["branch.bruteForce"]++
			default:
				o.Counts["branch.none(zero-limit)"]++
			}
			if cx.out.innerOpt > 0 {
				o.Counts["target-query.optimized"]++
			}
			if oc.MaxError > 0 && oc.k() > 1 {
				anyApproxMulti = true
			}
			var fl *failure
			if cx.out.panicked != "" {
				fl = &failure{kind: "panic", msg: "panic: " + cx.out.panicked}
			} else {
				fl = cx.compareFind(cx.out.res, o.Counts, o.Ratios)
				if fl == nil && len(cx.out.res) > 0 {
					o.Counts["queries.nonempty"]++
				}
			}
			if fl != nil {
				cx.classify(fl)
				fl.msg = fmt.Sprintf("target %d (%s) option set %d %+v branch=%s: %s", ti, tg.kind, oi, oc, cx.out.outer, fl.msg)
				fails = append(fails, fl)
			}
		}
	}
	sd.info()
	switch {
	case !anyOpt:
		o.Class = "brute-only"
	case sd.topCells >= 3:
		o.Class = fmt.Sprintf("optimized/top-cells>=3/faces=%d", len(sd.faces))
	default:
		o.Class = fmt.Sprintf("optimized/top-cells=%d", sd.topCells)
	}
	o.NonTrivial = (anyOpt && sd.topCells >= 3) || anyApproxMulti
	if fl := pickFailure(fails); fl != nil {
		o.Err = fl.msg
		o.Finding = fl.finding
	}
	return o
}

// ---------------------------------------------------------------- registration

func init() {
	ev.Define("find_closest", ev.Options{
		Rule:  "index of 0..12 shapes of all seven shape types (star loops, nested-ring polygons, polylines, lax variants, points; 0..200 edges, up to 2500 in a quarter of the thorough cases; 1/4 of the cases exactly on/next to the 25/26 and 30/31 thresholds; clusters down to 1e-9 rad so that index cells reach the leaf level; placed on 1,2,3,4,6 faces or as one large region), 1..4 targets (point/edge incl. degenerate/cell of any level; on vertices, on edges, inside polygons, antipodal, far, a quarter circle from a vertex, at the pole of a cell side, on an axis with denormal other components), 1..4 option sets each (MaxResults 1,2,3,10,∞; limit ∞, 0, tiny, absolute, or the r-th true distance ±1 ulp; MaxError 0 or 1e-14..4; interiors; brute force). Oracle: own scan of every edge with the exported point/edge/cell primitives and the same limit, exact parity containment from a construction-known point for interiors; equality of the sorted list (MaxError 0), order-statistics bound (MaxError>0). Non-trivial = the optimized branch ran on an index whose covering has >=3 top-level cells, or MaxError>0 with MaxResults>1.",
		Quick: 40000, Thorough: 600000}, genFind(false, 200, 2500), checkFind)
	ev.Define("find_furthest", ev.Options{
		Rule:  "as find_closest for NewFurthestEdgeQuery (distances are maxima, limit is a lower bound, interiors mean the polygon contains the antipode of the target's representative point; half of the probes are antipodes of indexed geometry).",
		Quick: 28000, Thorough: 400000}, genFind(true, 200, 2500), checkFind)
	ev.Define("find_index_target", ev.Options{
		Rule:  "closest and furthest with a second index as the target (1..5 shapes, 1..60 edges, either drawn independently or placed about probes of the indexed geometry). Oracle: per indexed edge the best edge pair over all target edges (zero/π when the edge midpoint/its antipode lies in a target polygon), interiors from the first vertex of every target chain. MaxError>0: true ≤ reported ≤ true+MaxError per entry and per rank. Non-trivial as find_closest.",
		Quick: 14000, Thorough: 150000}, genFindIndexTarget, checkFind)
}
