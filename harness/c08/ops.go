package c08

import (
	"fmt"
	"math"
	"os"

	"github.com/golang/geo/s1"
	"github.com/golang/geo/s2"
	"pgregory.net/rapid"

	"verifharness/internal/ev"
	"verifharness/internal/gen"
	"verifharness/internal/hp"
)

// ---------------------------------------------------------------- threshold tests, Distance, query reuse

// opCase is one call on a query object.
// Kind: find | distance | less (IsDistanceLess / IsDistanceGreater) |
// cons (IsConservativeDistanceLessOrEqual / IsConservativeDistanceGreaterOrEqual).
// For less/cons the limit of O is the threshold argument; for find/distance O
// is the option set (fresh query) or ignored (reused query).
type opCase struct {
	Kind string
	T    targetCase
	O    optCase
}

type opsCase struct {
	Index    indexCase
	Furthest bool
	// Reuse: all ops run on ONE query built with Q; otherwise every op gets a
	// fresh query built from its own O.
	Reuse bool
	Q     optCase
	Ops   []opCase
}

func drawOps(reuse bool) func(t *rapid.T) opsCase {
	return func(t *rapid.T) opsCase {
		furthest := rapid.Bool().Draw(t, "furthest")
		maxEdges := 150
		if thorough() && rapid.IntRange(0, 4).Draw(t, "bigidx") == 0 {
			maxEdges = 1500
		}
		ic := drawIndex(t, "ix", 10, maxEdges)
		verts := ic.vertices()
		c := opsCase{Index: ic, Furthest: furthest, Reuse: reuse}
		if reuse {
			// (MaxError > 0 with MaxResults > 1 and an index target is the only
			// combination that uses the query's tested-edge set across cells)
			c.Q = drawOpt(t, "q", furthest, true)
		}
		n := rapid.IntRange(2, 8).Draw(t, "nops")
		var prev *targetCase
		for i := 0; i < n; i++ {
			l := fmt.Sprintf("op%d", i)
			var op opCase
			if reuse {
				op.Kind = rapid.SampledFrom([]string{"find", "find", "find", "distance", "less", "cons"}).Draw(t, l+".kind")
			} else {
				op.Kind = rapid.SampledFrom([]string{"distance", "less", "less", "cons", "cons"}).Draw(t, l+".kind")
			}
			if prev != nil && rapid.IntRange(0, 2).Draw(t, l+".same") == 0 {
				op.T = *prev
			} else if rapid.IntRange(0, 7).Draw(t, l+".idx") <= btoi(reuse)*2 {
				b := drawIndex(t, l+".bx", 4, 40)
				op.T = targetCase{Kind: "index", Idx: &b}
			} else {
				op.T = drawTarget(t, l, ic, verts, furthest)
			}
			prev = &op.T
			op.O = drawOpt(t, l+".o", furthest, op.Kind == "distance" && !reuse)
			if op.Kind == "less" || op.Kind == "cons" {
				// a threshold is always given; extremes included
				if op.O.LimKind == 0 {
					op.O.LimKind = 2
				}
			}
			if op.Kind == "distance" {
				op.O.LimKind = 0
			}
			c.Ops = append(c.Ops, op)
		}
		return c
	}
}

func btoi(b bool) int {
	if b {
		return 1
	}
	return 0
}

// expanded re-states ChordAngle.Expanded for ordinary values.
func expanded(c s1.ChordAngle, e float64) s1.ChordAngle {
	if c < 0 || math.IsInf(float64(c), 0) {
		return c
	}
	return s1.ChordAngle(math.Max(0, math.Min(4, float64(c)+e)))
}

func checkOps(c opsCase) ev.Outcome {
	o := ev.Outcome{Counts: map[string]int{}, Ratios: map[string]float64{}}
	sd := buildSide(c.Index)
	fu := c.Furthest
	var fails []*failure
	anyOpt := false
	thresholdAfter := false // reuse: a Distance/threshold call came before this op
	var q *s2.EdgeQuery
	var qL s1.ChordAngle
	var qHaveL bool
	for i, op := range c.Ops {
		tg := mkTgt(op.T)
		base, _ := scan(sd, tg, fu, infOf(fu), false)
		distinct := distinctDistances(base)
		oc := op.O
		if c.Reuse {
			// the query's own options; its limit symbol is resolved against the first target
			if q == nil {
				qL, qHaveL = c.Q.resolveLimit(fu, distinct)
				q = newQuery(sd, fu, c.Q.build(fu, qL, qHaveL))
			}
		}
		L, haveL := oc.resolveLimit(fu, distinct)
		var fl *failure
		var out callOut
		cx := &qctx{sd: sd, tg: tg, furthest: fu}
		o.Counts["op."+op.Kind]++
		o.Counts["target."+tg.kind]++
		switch op.Kind {
		case "find":
			// reuse only: FindEdges under the query's configured options
			cx.o, cx.L, cx.haveL = c.Q, qL, qHaveL
			out = call(q, "FindEdges", tg.make(fu))
			cx.out = out
			if out.panicked != "" {
				fl = &failure{kind: "panic", msg: "panic: " + out.panicked}
			} else {
				fl = cx.compareFind(out.res, o.Counts, o.Ratios)
			}
		case "distance":
			qq := q
			if c.Reuse {
				cx.o, cx.L, cx.haveL = c.Q, qL, qHaveL
			} else {
				cx.o, cx.L, cx.haveL = oc, L, haveL
				qq = newQuery(sd, fu, oc.build(fu, L, haveL))
			}
			cx.o.MaxResults = 1
			out = call(qq, "Distance", tg.make(fu))
			cx.out = out
			if out.panicked != "" {
				fl = &failure{kind: "panic", msg: "panic: " + out.panicked}
				break
			}
			edges, ints := scan(sd, tg, fu, cx.effL(), cx.o.interiors())
			all := merged(fu, edges, ints)
			want := infOf(fu)
			if len(all) > 0 {
				want = all[0].d
			}
			fl = cx.compareDistance(out.dist, want, len(all) > 0, all, o.Counts)
		default:
			// threshold forms: limit argument L; interiors/brute from the options
			if !haveL {
				// no distances at all to refer to: use the extreme threshold
				L = 4
				if fu {
					L = 0
				}
			}
			qq := q
			if c.Reuse {
				cx.o = c.Q
			} else {
				oo := oc
				oo.LimKind = 0
				oo.MaxError = 0
				cx.o = oo
				qq = newQuery(sd, fu, oo.build(fu, 0, false))
			}
			eff := L
			method := "IsDistanceLess"
			if fu {
				method = "IsDistanceGreater"
			}
			if op.Kind == "cons" {
				if fu {
					method = "IsConservativeDistanceGreaterOrEqual"
					eff = expanded(L, -updateMinDistanceMaxError(L))
				} else {
					method = "IsConservativeDistanceLessOrEqual"
					eff = expanded(L, updateMinDistanceMaxError(L))
				}
			}
			cx.L, cx.haveL = eff, true
			cx.o.MaxResults = 1
			out = call(qq, method, tg.make(fu), L)
			cx.out = out
			if out.panicked != "" {
				fl = &failure{kind: "panic", msg: "panic: " + out.panicked}
				break
			}
			edges, ints := scan(sd, tg, fu, eff, cx.o.interiors())
			all := merged(fu, edges, ints)
			want := len(all) > 0
			// the conservative forms are documented as "less (greater) OR EQUAL to the
			// expanded limit": an entry exactly at the expanded limit may count or not
			inclusiveOK := false
			if op.Kind == "cons" && !want && out.b {
				incl := eff.Successor()
				if fu {
					incl = eff.Predecessor()
				}
				ie, ii := scan(sd, tg, fu, incl, cx.o.interiors())
				inclusiveOK = len(ie)+len(ii) > 0
			}
			switch {
			case out.b == want:
			case inclusiveOK:
				o.Counts["threshold.at-expanded-limit"]++
			case want && !out.b && out.outer == "edgequery.optimized" && cx.allNearLimit(all):
				o.Counts["tolerated.pruned-near-limit"]++
			case tg.kind == "index" && cx.withinRounding(sd, tg, eff, all, want):
				o.Counts["tolerated.rounding-path"]++
				if os.Getenv("C08_DEBUG") != "" {
					fmt.Fprintf(os.Stderr, "DEBUG rounding-path: %s L=%.17g eff=%.17g got=%v want=%v branch=%s inner=%d/%d all=%s\n", method, float64(L), float64(eff), out.b, want, out.outer, out.innerOpt, out.innerBF, fmtCands(all, 3))
				}
			default:
				fl = &failure{kind: "threshold", absent: all, msg: fmt.Sprintf("%s(limit %.17g, effective %.17g) = %v, scan finds %d entries passing:%s", method, float64(L), float64(eff), out.b, len(all), fmtCands(all, 6))}
			}
			// documented one-sided meaning of the conservative forms
			if fl == nil && op.Kind == "cons" {
				be, bi := scan(sd, tg, fu, infOf(fu), cx.o.interiors())
				ball := merged(fu, be, bi)
				if len(ball) > 0 {
					d := ball[0].d
					must := (!fu && d <= L) || (fu && d >= L)
					if must && !out.b && out.outer == "edgequery.optimized" && cx.allNearLimit(all) {
						// the expansion covers the error of edge distances, not the rounding of
						// the cell bounds that prune the search (same tolerance as above)
						must = false
					}
					if must && !out.b {
						fl = &failure{kind: "conservative", absent: ball[:1], msg: fmt.Sprintf("%s(limit %.17g) = false although the scan distance is %.17g", method, float64(L), float64(d))}
						if (!fu && L == 4 && d == 4) || (fu && L == 0 && d == 0) {
							fl.finding = "conservative-limit-not-inclusive-at-extreme"
						}
					}
				}
			}
			if out.b {
				o.Counts["threshold.true"]++
			} else {
				o.Counts["threshold.false"]++
			}
		}
		switch out.outer {
		case "edgequery.optimized":
			o.Counts["branch.optimized"]++
			anyOpt = true
		case "edgequery.bruteForce":
			o.Counts["branch.bruteForce"]++
		default:
			o.Counts["branch.none(zero-limit)"]++
		}
		if fl != nil {
			if fl.finding == "" {
				cx.classify(fl)
			}
			if fl.finding == "" && c.Reuse && thresholdAfter && op.Kind == "find" {
				// would the same call on a fresh query succeed? then the object's history is the cause
				cx2 := &qctx{sd: sd, tg: mkTgt(op.T), furthest: fu, o: c.Q, L: qL, haveL: qHaveL}
				cx2.out = call(newQuery(sd, fu, c.Q.build(fu, qL, qHaveL)), "FindEdges", cx2.tg.make(fu))
				if cx2.out.panicked == "" && cx2.compareFind(cx2.out.res, map[string]int{}, map[string]float64{}) == nil {
					fl.finding = "options-rewritten-by-threshold-call"
				}
			}
			fl.msg = fmt.Sprintf("op %d %s target %s opts %+v (query %+v) branch=%s: %s", i, op.Kind, tg.kind, oc, c.Q, out.outer, fl.msg)
			fails = append(fails, fl)
		}
		if op.Kind != "find" {
			thresholdAfter = true
		}
	}
	sd.info()
	switch {
	case !anyOpt:
		o.Class = "brute-only"
	case sd.topCells >= 3:
		o.Class = "optimized/top-cells>=3"
	default:
		o.Class = "optimized/top-cells<3"
	}
	o.NonTrivial = anyOpt && sd.topCells >= 3
	if c.Reuse {
		o.NonTrivial = anyOpt
	}
	if fl := pickFailure(fails); fl != nil {
		o.Err = fl.msg
		o.Finding = fl.finding
	}
	return o
}

// compareDistance: Distance() against the best scan entry.
func (cx *qctx) compareDistance(got, want s1.ChordAngle, have bool, all []cand, counts map[string]int) *failure {
	if got == want {
		return nil
	}
	cx.distMode, cx.distVal = true, got
	fu := cx.furthest
	if !have {
		return &failure{kind: "spurious", msg: fmt.Sprintf("Distance = %.17g, the scan finds nothing within the limit (sentinel %.17g expected)", float64(got), float64(want))}
	}
	if got == infOf(fu) {
		if cx.out.outer == "edgequery.optimized" && cx.nearLimit(all[0]) {
			counts["tolerated.pruned-near-limit"]++
			return nil
		}
		return &failure{kind: "missing", absent: all[:1], msg: fmt.Sprintf("Distance = sentinel %.17g, scan distance %.17g", float64(got), float64(want))}
	}
	me := s1.ChordAngle(cx.o.MaxError)
	if me > 0 {
		var ok bool
		if fu {
			ok = got <= want && float64(got) >= float64(want.Sub(me))*(1-1e-13)-1e-300
		} else {
			ok = got >= want && float64(got) <= float64(want.Add(me))*(1+1e-13)+1e-300
		}
		if ok {
			return nil
		}
		fl := &failure{kind: "error-bound", absent: all[:1], msg: fmt.Sprintf("Distance = %.17g, scan optimum %.17g, MaxError %.3g", float64(got), float64(want), float64(me))}
		// make the out-of-range value visible to classify
		cx.out.res = []cand{{0, 0, got}}
		return fl
	}
	tol := 2 * updateMinDistanceMaxError(want)
	if cx.out.outer == "edgequery.optimized" {
		tol = math.Max(tol, pruneTol(want))
	}
	if math.Abs(float64(got)-float64(want)) <= tol {
		counts["tolerated.k1-near-tie"]++
		return nil
	}
	return &failure{kind: "wrong-distance", absent: all[:1], msg: fmt.Sprintf("Distance = %.17g, scan optimum %.17g", float64(got), float64(want))}
}

func (cx *qctx) allNearLimit(all []cand) bool {
	for _, c := range all {
		if !cx.nearLimit(c) {
			return false
		}
	}
	return len(all) > 0
}

// withinRounding: an index target's own query follows an evolving limit; its
// answer for an edge pair exactly at the threshold may take the other rounding
// path of the same primitive. Tolerated only if every entry that decides the
// answer is within twice the documented error of the threshold.
func (cx *qctx) withinRounding(sd *side, tg *tgt, L s1.ChordAngle, passing []cand, want bool) bool {
	tol := 2 * updateMinDistanceMaxError(L)
	if want {
		// reported false: every passing entry must be at the threshold
		for _, c := range passing {
			if c.e < 0 || math.Abs(float64(c.d)-float64(L)) > tol {
				return false
			}
		}
		return len(passing) > 0
	}
	// reported true: some non-passing edge must be at the threshold
	for si, es := range sd.edges {
		for ei, e := range es {
			d, ok := tg.edgeDist(int32(si), int32(ei), e, cx.furthest, infOf(cx.furthest))
			if ok && math.Abs(float64(d)-float64(L)) <= tol {
				return true
			}
		}
	}
	return false
}

// ---------------------------------------------------------------- interiors: a target inside a polygon is at distance zero

// insideCase: a polygon (star loop, any of the four two-dimensional shape
// types) whose centre C is strictly inside by construction; R is half the
// high-precision distance from C to the nearest boundary edge, so the open
// disc of radius R about C is inside the polygon. The polygon is one shape of
// a drawn index. The target lies in that disc (its antipodal image for furthest).
type insideCase struct {
	Index    indexCase
	Poly     int // index of the constructed polygon in Index.Shapes
	Furthest bool
	T        targetCase
	Brute    bool
}

func genInside(t *rapid.T) insideCase {
	furthest := rapid.Bool().Draw(t, "furthest")
	ic := drawIndex(t, "ix", 6, 120)
	c := gen.SpecialCenter(t, "pc")
	if len(ic.Shapes) > 0 && rapid.Bool().Draw(t, "near") {
		v := ic.vertices()
		if len(v) > 0 {
			c = v[rapid.IntRange(0, len(v)-1).Draw(t, "nearv")].Pt()
		}
	}
	typ := rapid.SampledFrom([]string{"loop", "polygon", "laxloop", "laxpolygon"}).Draw(t, "ptype")
	maxN := rapid.SampledFrom([]int{6, 12, 40, 100}).Draw(t, "pn")
	l := gen.StarLoopAt(t, "poly", c, maxN, 1.2)
	sc := shapeCase{Type: typ, Loops: [][]gen.P{l.V}, Known: l.Inside, KnownIn: true}
	pos := rapid.IntRange(0, len(ic.Shapes)).Draw(t, "ppos")
	ic.Shapes = append(ic.Shapes[:pos], append([]shapeCase{sc}, ic.Shapes[pos:]...)...)
	// inscribed radius (float estimate only steers the generator; Check recomputes it in high precision)
	r := inscribed(sc) * rapid.Float64Range(0, 0.9).Draw(t, "rf")
	x, y := frame(c)
	p := at(c, x, y, r, rapid.Float64Range(0, 2*math.Pi).Draw(t, "paz"))
	var tc targetCase
	switch rapid.IntRange(0, 2).Draw(t, "tk") {
	case 0:
		tc = targetCase{Kind: "point", A: gen.FromPt(p)}
	case 1:
		q := at(c, x, y, inscribed(sc)*rapid.Float64Range(0, 0.9).Draw(t, "rf2"), rapid.Float64Range(0, 2*math.Pi).Draw(t, "qaz"))
		tc = targetCase{Kind: "edge", A: gen.FromPt(p), B: gen.FromPt(q)}
	default:
		// a cell around p small enough to stay in the disc (Check verifies)
		lvl := rapid.IntRange(0, 30).Draw(t, "lvl")
		tc = targetCase{Kind: "cell", Cell: uint64(s2.CellFromPoint(p).ID().Parent(lvl))}
	}
	if furthest {
		tc.A = gen.FromPt(neg(tc.A.Pt()))
		tc.B = gen.FromPt(neg(tc.B.Pt()))
		if tc.Kind == "cell" {
			tc.Cell = uint64(s2.CellFromPoint(neg(p)).ID().Parent(s2.CellID(tc.Cell).Level()))
		}
	}
	return insideCase{Index: ic, Poly: pos, Furthest: furthest, T: tc, Brute: rapid.IntRange(0, 3).Draw(t, "brute") == 0}
}

// inscribed: half the distance (radians) from the known centre to the nearest
// edge of the single loop, in high precision.
func inscribed(sc shapeCase) float64 {
	c := hp.Vec(sc.Known.Pt().Vector)
	v := sc.Loops[0]
	best := math.Inf(1)
	for i := range v {
		d2, _ := hp.PointEdgeChord2(c, hp.Vec(v[i].Pt().Vector), hp.Vec(v[(i+1)%len(v)].Pt().Vector))
		if f := hp.Float(d2); f < best {
			best = f
		}
	}
	return 0.5 * 2 * math.Asin(math.Min(1, math.Sqrt(best)/2))
}

func checkInside(c insideCase) ev.Outcome {
	o := ev.Outcome{Counts: map[string]int{}}
	fu := c.Furthest
	sc := c.Index.Shapes[c.Poly]
	centre := sc.Known.Pt()
	R := inscribed(sc)
	// the target (its antipodal image for furthest) must lie inside the disc
	tg := mkTgt(c.T)
	img := func(p s2.Point) s2.Point {
		if fu {
			return neg(p)
		}
		return p
	}
	inDisc := func(p s2.Point) bool { return float64(centre.Distance(img(p))) < R*0.95 }
	switch tg.kind {
	case "point":
		if !inDisc(tg.a) {
			o.Skip = true
			return o
		}
	case "edge":
		if !inDisc(tg.a) || !inDisc(tg.b) {
			o.Skip = true
			return o
		}
	default:
		for k := 0; k < 4; k++ {
			if !inDisc(tg.cell.Vertex(k)) {
				o.Skip = true
				return o
			}
		}
		if !inDisc(tg.cell.Center()) {
			o.Skip = true
			return o
		}
	}
	sd := buildSide(c.Index)
	o.Class = tg.kind + "/" + sc.Type
	zero := zeroOf(fu)
	mkOpts := func(interiors bool) *s2.EdgeQueryOptions {
		oc := optCase{Brute: c.Brute, Interiors: 1}
		if !interiors {
			oc.Interiors = 2
		}
		return oc.build(fu, 0, false)
	}
	fail := func(format string, a ...any) ev.Outcome {
		o.Err = fmt.Sprintf(format, a...)
		return o
	}
	// Distance with interiors: exactly zero (π for furthest)
	out := call(newQuery(sd, fu, mkOpts(true)), "Distance", tg.make(fu))
	if out.panicked != "" {
		o.Finding = "panic"
		return fail("panic: %s", out.panicked)
	}
	if out.dist != zero {
		return fail("target inside polygon %d (%s): Distance with interiors = %.17g, want %.17g", c.Poly, sc.Type, float64(out.dist), float64(zero))
	}
	// default options include interiors
	var defOpts *s2.EdgeQueryOptions
	out = call(newQuery(sd, fu, defOpts), "Distance", tg.make(fu))
	if out.panicked != "" || out.dist != zero {
		return fail("target inside polygon %d: Distance with default (nil) options = %.17g %s, want %.17g", c.Poly, float64(out.dist), out.panicked, float64(zero))
	}
	// FindEdges(MaxResults 1): an interior result at distance zero
	oc := optCase{MaxResults: 1, Interiors: 1, Brute: c.Brute}
	out = call(newQuery(sd, fu, oc.build(fu, 0, false)), "FindEdges", tg.make(fu))
	if out.panicked != "" || len(out.res) != 1 || out.res[0].d != zero {
		return fail("target inside polygon %d: FindEdges(MaxResults 1, interiors) = %s %s", c.Poly, fmtCands(out.res, 4), out.panicked)
	}
	// all results: (Poly, -1, zero) is among them
	oc = optCase{Interiors: 1, Brute: c.Brute}
	out = call(newQuery(sd, fu, oc.build(fu, 0, false)), "FindEdges", tg.make(fu))
	found := false
	for _, r := range out.res {
		if r.s == int32(c.Poly) && r.e == -1 && r.d == zero {
			found = true
		}
	}
	if out.panicked != "" || !found {
		return fail("target inside polygon %d: FindEdges(interiors) has no interior entry for it:%s %s", c.Poly, fmtCands(out.res, 6), out.panicked)
	}
	// threshold forms
	method, lim := "IsDistanceLess", s1.ChordAngle(5e-324)
	if fu {
		method, lim = "IsDistanceGreater", s1.StraightChordAngle.Predecessor()
	}
	out = call(newQuery(sd, fu, mkOpts(true)), method, tg.make(fu), lim)
	if out.panicked != "" || !out.b {
		return fail("target inside polygon %d: %s(%.17g) with interiors = false %s", c.Poly, method, float64(lim), out.panicked)
	}
	// without interiors the distance is that of the boundary: positive for the
	// constructed polygon; compare with the scan
	out = call(newQuery(sd, fu, mkOpts(false)), "Distance", tg.make(fu))
	o.NonTrivial = out.outer == "edgequery.optimized"
	cx := &qctx{sd: sd, tg: tg, furthest: fu, o: optCase{MaxResults: 1, Interiors: 2, Brute: c.Brute}, out: out}
	edges, _ := scan(sd, tg, fu, infOf(fu), false)
	want := infOf(fu)
	if len(edges) > 0 {
		want = edges[0].d
	}
	if out.panicked != "" {
		o.Finding = "panic"
		return fail("panic: %s", out.panicked)
	}
	if fl := cx.compareDistance(out.dist, want, len(edges) > 0, edges, o.Counts); fl != nil {
		cx.classify(fl)
		o.Err = "without interiors: " + fl.msg
		o.Finding = fl.finding
		return o
	}
	return o
}

func init() {
	ev.Define("threshold", ev.Options{
		Rule:  "index as find_closest (≤150 edges), closest or furthest, 2..8 calls each on a fresh query: Distance (MaxError 0 or >0), IsDistanceLess/IsDistanceGreater and the two conservative forms with thresholds from the r-th true distance ±1 ulp, absolute values, 0, 4; targets point/edge/cell and (1/8) a second index. Oracle: the scan (any entry passing the threshold / best entry); the conservative forms against the scan with the threshold moved by the documented UpdateMinDistance error (formula re-stated) and against their one-sided meaning. Non-trivial = optimized branch ran on an index with >=3 top-level cells.",
		Quick: 16000, Thorough: 250000}, drawOps(false), checkOps)
	ev.Define("query_reuse", ev.Options{
		Rule:  "ONE query object with fixed options receives 2..8 calls (FindEdges, Distance, IsDistanceLess/Greater, conservative forms; varying targets incl. a second index): every FindEdges must equal the scan under the configured options and every other call its own oracle, whatever came before. A FindEdges failure that a fresh query does not show is classed as history dependence. Non-trivial = the optimized branch ran.",
		Quick: 12000, Thorough: 200000}, drawOps(true), checkOps)
	ev.Define("interior_zero", ev.Options{
		Rule:  "a star polygon of one of the four two-dimensional shape types is added to a drawn index; the target (point, edge, cell) lies in the disc about its centre of half the high-precision distance centre–boundary (antipodal image for furthest): constructed truth. Distance with interiors (explicit and default options) must be exactly 0 (π), FindEdges must report the interior entry, the threshold forms must hold, and without interiors Distance must equal the scan. Discarded = the drawn cell/edge does not fit in the disc. Non-trivial = the search without interiors ran the optimized branch.",
		Quick: 12000, Thorough: 200000}, genInside, checkInside)
}
