package c08

import (
	"fmt"
	"math"

	"github.com/golang/geo/r3"
	"github.com/golang/geo/s2"
	"pgregory.net/rapid"

	"verifharness/internal/gen"
)

// ---------------------------------------------------------------- case data

// shapeCase is one indexed shape as plain data. For the two-dimensional types
// Known is a point whose membership (KnownIn) is known from the construction
// (never from the library): it anchors the exact parity containment oracle.
type shapeCase struct {
	// loop | polygon | polyline | laxloop | laxpolygon | laxpolyline | points |
	// fullpolygon | fulllax | emptypolygon (edge-less regions: Loops is empty)
	Type    string
	Loops   [][]gen.P
	Known   gen.P
	KnownIn bool
}

func (s shapeCase) dim2() bool {
	switch s.Type {
	case "loop", "polygon", "laxloop", "laxpolygon", "fullpolygon", "fulllax", "emptypolygon":
		return true
	}
	return false
}

// full: an edge-less region that contains every point.
func (s shapeCase) full() bool { return s.Type == "fullpolygon" || s.Type == "fulllax" }

func (s shapeCase) numEdges() int {
	n := 0
	for _, l := range s.Loops {
		switch s.Type {
		case "polyline", "laxpolyline":
			if len(l) > 0 {
				n += len(l) - 1
			}
		default:
			n += len(l)
		}
	}
	return n
}

func (s shapeCase) build() s2.Shape {
	switch s.Type {
	case "loop":
		return s2.LoopFromPoints(gen.Pts(s.Loops[0]))
	case "polygon":
		var ls []*s2.Loop
		for _, l := range s.Loops {
			ls = append(ls, s2.LoopFromPoints(gen.Pts(l)))
		}
		return s2.PolygonFromLoops(ls)
	case "polyline":
		p := s2.Polyline(gen.Pts(s.Loops[0]))
		return &p
	case "laxloop":
		return s2.LaxLoopFromPoints(gen.Pts(s.Loops[0]))
	case "laxpolygon":
		var ls [][]s2.Point
		for _, l := range s.Loops {
			ls = append(ls, gen.Pts(l))
		}
		return s2.LaxPolygonFromPoints(ls)
	case "laxpolyline":
		return s2.LaxPolylineFromPoints(gen.Pts(s.Loops[0]))
	case "fullpolygon":
		return s2.FullPolygon()
	case "fulllax":
		return s2.LaxPolygonFromPoints([][]s2.Point{{}})
	case "emptypolygon":
		return s2.PolygonFromLoops(nil)
	case "points":
		var pts []s2.Point
		if len(s.Loops) > 0 {
			pts = gen.Pts(s.Loops[0])
		}
		pv := s2.PointVector(pts)
		return &pv
	}
	panic("c08: unknown shape type " + s.Type)
}

type indexCase struct {
	Shapes []shapeCase
}

func (ic indexCase) numEdges() int {
	n := 0
	for _, s := range ic.Shapes {
		n += s.numEdges()
	}
	return n
}

func (ic indexCase) vertices() []gen.P {
	var v []gen.P
	for _, s := range ic.Shapes {
		for _, l := range s.Loops {
			v = append(v, l...)
		}
	}
	return v
}

// targetCase: Kind point (A), edge (A,B), cell (Cell) or index (Idx).
type targetCase struct {
	Kind string
	A, B gen.P
	Cell uint64
	Idx  *indexCase `json:",omitempty"`
}

// optCase is one option set. The distance limit is symbolic where it refers
// to the oracle's sorted distances (resolved inside Check, deterministically).
type optCase struct {
	MaxResults int // 0 = leave unlimited
	LimKind    int // 0 unset, 1 absolute LimAbs, 2 the LimRank-th distinct true distance moved by LimUlps
	LimAbs     float64
	LimRank    int
	LimUlps    int
	MaxError   float64
	Interiors  int // 0 leave default (true), 1 true, 2 false
	Brute      bool
}

type targetQ struct {
	T    targetCase
	Opts []optCase
}

type findCase struct {
	Index    indexCase
	Furthest bool
	Targets  []targetQ
}

// ---------------------------------------------------------------- geometry helpers

func frame(c s2.Point) (x, y r3.Vector) {
	x = c.Ortho()
	y = c.Cross(x).Normalize()
	return x, y
}

func at(c s2.Point, x, y r3.Vector, r, az float64) s2.Point {
	d := x.Mul(math.Cos(az)).Add(y.Mul(math.Sin(az)))
	return gen.Fix(s2.Point{Vector: c.Mul(math.Cos(r)).Add(d.Mul(math.Sin(r))).Normalize()}, c)
}

func logUniform(t *rapid.T, label string, lo, hi float64) float64 {
	if hi <= lo {
		return lo
	}
	return math.Exp(rapid.Float64Range(math.Log(lo), math.Log(hi)).Draw(t, label))
}

func minI(a, b int) int {
	if a < b {
		return a
	}
	return b
}
func maxI(a, b int) int {
	if a > b {
		return a
	}
	return b
}

func reverseP(v []gen.P) []gen.P {
	n := len(v)
	out := make([]gen.P, n)
	for i := range v {
		out[i] = v[n-1-i]
	}
	return out
}

// ---------------------------------------------------------------- shapes

// drawRings: k concentric rings about c, ring j has n_j >= 8 equally spaced
// azimuths and radii in [0.8,1]*rout*0.6^j. In the gnomonic picture about c the
// chords of ring j stay outside radius 0.8*cos(pi/8) = 0.739 of its outer radius,
// the next ring stays inside 0.6 of it: the rings are nested and disjoint.
// All rings are counter-clockwise about c.
func drawRings(t *rapid.T, label string, c s2.Point, k, maxN int, rlimit float64) [][]gen.P {
	x, y := frame(c)
	lim := math.Min(rlimit, 70*math.Pi/180)
	rout := logUniform(t, label+".lr", math.Max(lim*1e-3, math.Min(lim, 1e-9)), lim)
	var rings [][]gen.P
	for ring := 0; ring < k; ring++ {
		n := rapid.IntRange(8, maxI(8, maxN)).Draw(t, label+".rn")
		hiR := rout * math.Pow(0.6, float64(ring))
		loR := hiR * 0.8
		az0 := rapid.Float64Range(0, 2*math.Pi).Draw(t, label+".az0")
		flat := rapid.Bool().Draw(t, label+".flat")
		var v []gen.P
		for i := 0; i < n; i++ {
			r := hiR
			if !flat {
				r = rapid.Float64Range(loR, hiR).Draw(t, label+".r")
			}
			v = append(v, gen.FromPt(at(c, x, y, r, az0+float64(i)*2*math.Pi/float64(n))))
		}
		rings = append(rings, v)
	}
	return rings
}

// drawShape draws one shape with 1..budget edges near c (within about spread).
func drawShape(t *rapid.T, label string, c s2.Point, spread float64, budget int) shapeCase {
	x, y := frame(c)
	lc := at(c, x, y, rapid.Float64Range(0, spread).Draw(t, label+".off"), rapid.Float64Range(0, 2*math.Pi).Draw(t, label+".offaz"))
	types := []string{"points", "polyline", "laxpolyline"}
	if budget >= 3 {
		types = append(types, "loop", "laxloop", "loop")
	}
	if budget >= 8 {
		types = append(types, "polygon", "laxpolygon", "polygon")
	}
	typ := rapid.SampledFrom(types).Draw(t, label+".type")
	switch typ {
	case "loop", "laxloop":
		l := gen.StarLoopAt(t, label, lc, budget, spread)
		if rapid.IntRange(0, 9).Draw(t, label+".inv") == 0 {
			l = l.Reversed()
		}
		return shapeCase{Type: typ, Loops: [][]gen.P{l.V}, Known: l.Inside, KnownIn: l.KnownContains()}
	case "polygon", "laxpolygon":
		k := rapid.IntRange(1, minI(3, budget/8)).Draw(t, label+".rings")
		rings := drawRings(t, label, lc, k, budget/k, spread)
		if typ == "laxpolygon" {
			// lax polygons take oriented loops: holes clockwise
			for j := range rings {
				if j%2 == 1 {
					rings[j] = reverseP(rings[j])
				}
			}
		}
		return shapeCase{Type: typ, Loops: rings, Known: gen.FromPt(lc), KnownIn: k%2 == 1}
	case "polyline", "laxpolyline":
		n := rapid.IntRange(2, maxI(2, minI(budget+1, 61))).Draw(t, label+".n")
		step := spread / float64(n)
		p := lc
		v := []gen.P{gen.FromPt(p)}
		az := rapid.Float64Range(0, 2*math.Pi).Draw(t, label+".az")
		for i := 1; i < n; i++ {
			if typ == "laxpolyline" && rapid.IntRange(0, 15).Draw(t, label+".dup") == 0 {
				v = append(v, gen.FromPt(p)) // degenerate edge (allowed in a lax polyline)
				continue
			}
			px, py := frame(p)
			az += rapid.Float64Range(-1, 1).Draw(t, label+".turn")
			q := at(p, px, py, step*rapid.Float64Range(0.2, 1).Draw(t, label+".len"), az)
			if q == p {
				q = at(p, px, py, 1e-7, az)
			}
			v = append(v, gen.FromPt(q))
			p = q
		}
		return shapeCase{Type: typ, Loops: [][]gen.P{v}}
	default:
		n := rapid.IntRange(1, maxI(1, minI(budget, 30))).Draw(t, label+".n")
		return shapeCase{Type: "points", Loops: [][]gen.P{drawPoints(t, label, lc, spread, n)}}
	}
}

func drawPoints(t *rapid.T, label string, c s2.Point, spread float64, n int) []gen.P {
	x, y := frame(c)
	v := make([]gen.P, 0, n)
	for i := 0; i < n; i++ {
		v = append(v, gen.FromPt(at(c, x, y, rapid.Float64Range(0, spread).Draw(t, label+".pr"), rapid.Float64Range(0, 2*math.Pi).Draw(t, label+".paz"))))
	}
	return v
}

func faceCentre(t *rapid.T, label string, f int) s2.Point {
	u := rapid.Float64Range(-0.6, 0.6).Draw(t, label+".cu")
	v := rapid.Float64Range(-0.6, 0.6).Draw(t, label+".cv")
	return gen.Fix(s2.Point{Vector: gen.FaceUVToXYZ(f, u, v).Normalize()}, s2.Point{Vector: r3.Vector{X: 1}})
}

var thresholdSizes = []int{24, 25, 26, 27, 29, 30, 31, 32, 33, 40}

// drawIndex draws 0..maxShapes shapes with at most maxEdges edges in total.
// Placement makes the index span 1, 2, 3, 4 or 6 cube faces explicitly (plus
// whatever one large shape spans by itself); the total edge count is placed
// exactly on / next to the brute-force thresholds (25/26, 30/31) in a third of
// the cases by padding with a point shape.
func drawIndex(t *rapid.T, label string, maxShapes, maxEdges int) indexCase {
	placement := rapid.IntRange(0, 7).Draw(t, label+".placement")
	var centres []s2.Point
	spreadHi := 0.5
	switch placement {
	case 0: // tiny, one place
		centres = []s2.Point{gen.SpecialCenter(t, label+".c0")}
		spreadHi = 1e-3
	case 1: // one place
		centres = []s2.Point{gen.SpecialCenter(t, label+".c0")}
	case 2: // two places
		centres = []s2.Point{gen.SpecialCenter(t, label+".c0"), gen.SpecialCenter(t, label+".c1")}
	case 3, 4, 5: // 3, 4, 6 faces
		nf := []int{3, 4, 6}[placement-3]
		f0 := rapid.IntRange(0, 5).Draw(t, label+".f0")
		for k := 0; k < nf; k++ {
			f := (f0 + k) % 6
			if nf == 3 {
				f = (f0 + 2*k) % 6 // pairwise non-opposite or spread: any three faces
			}
			centres = append(centres, faceCentre(t, label+".fc", f))
		}
		spreadHi = 0.3
	case 6: // one large shape region
		centres = []s2.Point{gen.SpecialCenter(t, label+".c0")}
		spreadHi = 1.3
	default: // free mix
		nc := rapid.IntRange(1, 6).Draw(t, label+".nc")
		for k := 0; k < nc; k++ {
			centres = append(centres, gen.Base(t, fmt.Sprintf("%s.cb%d", label, k)))
		}
	}
	spreadLo := 1e-6
	if placement == 0 {
		spreadLo = 1e-9 // index cells down to the leaf level
	}
	spread := logUniform(t, label+".spread", spreadLo, spreadHi)
	if placement >= 3 && placement <= 6 {
		spread = logUniform(t, label+".spread2", 1e-3, spreadHi)
	}

	var want int
	exact := false
	switch rapid.IntRange(0, 11).Draw(t, label+".sizekind") {
	case 0, 1, 2:
		want = rapid.SampledFrom(thresholdSizes).Draw(t, label+".thr")
		exact = true
	case 3:
		want = rapid.IntRange(1, minI(20, maxEdges)).Draw(t, label+".small")
	case 4, 5, 6, 7, 8:
		want = rapid.IntRange(minI(31, maxEdges), maxEdges).Draw(t, label+".mid")
		exact = rapid.Bool().Draw(t, label+".midexact")
	case 9:
		want = rapid.IntRange(minI(31, maxEdges), minI(60, maxEdges)).Draw(t, label+".low")
		exact = true
	case 10:
		want = rapid.IntRange(0, maxEdges).Draw(t, label+".any")
	default:
		want = rapid.IntRange(0, 3).Draw(t, label+".tiny")
	}
	if want > maxEdges {
		want = maxEdges
	}
	minShapes := 1
	if len(centres) > 1 {
		minShapes = minI(len(centres), maxShapes)
	}
	n := rapid.IntRange(minShapes, maxI(minShapes, maxShapes)).Draw(t, label+".nshapes")
	var ic indexCase
	left := want
	for i := 0; i < n && left > 0; i++ {
		c := centres[i%len(centres)]
		per := maxI(1, left/(n-i))
		if rapid.IntRange(0, 4).Draw(t, label+".big") == 0 {
			per = left
		}
		s := drawShape(t, fmt.Sprintf("%s.s%d", label, i), c, spread, per)
		left -= s.numEdges()
		ic.Shapes = append(ic.Shapes, s)
	}
	if left > 0 && (exact || rapid.Bool().Draw(t, label+".pad")) {
		c := centres[rapid.IntRange(0, len(centres)-1).Draw(t, label+".padc")]
		for left > 0 {
			k := minI(left, 30)
			ic.Shapes = append(ic.Shapes, shapeCase{Type: "points", Loops: [][]gen.P{drawPoints(t, label+".padp", c, spread, k)}})
			left -= k
		}
	}
	if rapid.IntRange(0, 5).Draw(t, label+".empty") == 0 {
		// an edgeless shape shifts the shape ids
		pos := rapid.IntRange(0, len(ic.Shapes)).Draw(t, label+".emptypos")
		e := shapeCase{Type: "points", Loops: [][]gen.P{{}}}
		switch rapid.IntRange(0, 5).Draw(t, label+".emptykind") {
		case 0, 1:
			// an edge-less region that contains everything (every target is in its interior)
			e = shapeCase{Type: rapid.SampledFrom([]string{"fullpolygon", "fulllax"}).Draw(t, label+".fullkind"), Known: gen.FromPt(s2.OriginPoint()), KnownIn: true}
		case 2:
			e = shapeCase{Type: "emptypolygon", Known: gen.FromPt(s2.OriginPoint())}
		}
		ic.Shapes = append(ic.Shapes[:pos], append([]shapeCase{e}, ic.Shapes[pos:]...)...)
	}
	return ic
}

// ---------------------------------------------------------------- targets

var xAxis = s2.Point{Vector: r3.Vector{X: 1}}

// drawProbe draws a query position related to the indexed geometry.
func drawProbe(t *rapid.T, label string, ic indexCase, verts []gen.P, antipodeOdds int) s2.Point {
	var p s2.Point
	if len(verts) == 0 {
		p = gen.Base(t, label+".base")
	} else {
		pick := func(l string) s2.Point { return verts[rapid.IntRange(0, len(verts)-1).Draw(t, label+l)].Pt() }
		switch rapid.IntRange(0, 13).Draw(t, label+".pk") {
		case 13:
			// the pole of the great circle through one side of a cell that contains a
			// vertex (± a little): exactly a quarter circle from that whole side
			q := pick(".pi")
			c := s2.CellFromCellID(s2.CellFromPoint(q).ID().Parent(rapid.IntRange(0, 30).Draw(t, label+".pl")))
			k := rapid.IntRange(0, 3).Draw(t, label+".pk2")
			n := c.Vertex(k).Cross(c.Vertex((k + 1) % 4).Vector)
			if n.Norm2() == 0 {
				p = q
				break
			}
			p = s2.Point{Vector: n.Normalize()}
			if rapid.Bool().Draw(t, label+".pneg") {
				p = s2.Point{Vector: p.Mul(-1)}
			}
			if rapid.Bool().Draw(t, label+".pnoise") {
				x, y := frame(p)
				p = at(p, x, y, logUniform(t, label+".pd", 1e-16, 1e-6), rapid.Float64Range(0, 2*math.Pi).Draw(t, label+".paz"))
			}
		case 11:
			// a quarter circle away from a vertex (± a little): distances next to π/2,
			// where cell distances are hardest
			q := pick(".qi")
			x, y := frame(q)
			d := rapid.SampledFrom([]float64{0, 0, 1e-15, -1e-15, 1e-9, -1e-9, 1e-6, -1e-6, 1e-3}).Draw(t, label+".qd")
			p = at(q, x, y, math.Pi/2+d, rapid.Float64Range(0, 2*math.Pi).Draw(t, label+".qaz"))
		case 12:
			// an axis direction with tiny other components, perpendicular to much of the cube structure
			p = gen.Spread(t, label+".spread")
		case 0:
			p = pick(".vi")
		case 1, 2:
			// on an edge of a chain (consecutive vertices of one vertex list)
			var lists [][]gen.P
			for _, s := range ic.Shapes {
				for _, l := range s.Loops {
					if len(l) >= 2 {
						lists = append(lists, l)
					}
				}
			}
			if len(lists) == 0 {
				p = pick(".vi0")
				break
			}
			l := lists[rapid.IntRange(0, len(lists)-1).Draw(t, label+".li")]
			k := rapid.IntRange(0, len(l)-1).Draw(t, label+".ei")
			a, b := l[k].Pt(), l[(k+1)%len(l)].Pt()
			f := rapid.Float64Range(0, 1).Draw(t, label+".ef")
			p = gen.Fix(s2.Interpolate(f, a, b), a)
			p = gen.Perturb(t, label+".en", p, 3)
		case 3:
			q := pick(".ni")
			x, y := frame(q)
			p = at(q, x, y, gen.TinyAngle(t, label+".nd"), rapid.Float64Range(0, 2*math.Pi).Draw(t, label+".naz"))
		case 4:
			// the construction-known point of a two-dimensional shape
			var ks []gen.P
			for _, s := range ic.Shapes {
				if s.dim2() {
					ks = append(ks, s.Known)
				}
			}
			if len(ks) == 0 {
				p = pick(".vi1")
			} else {
				p = ks[rapid.IntRange(0, len(ks)-1).Draw(t, label+".ki")].Pt()
			}
		case 5:
			q := pick(".ci")
			lvl := rapid.IntRange(0, 30).Draw(t, label+".cl")
			id := s2.CellFromPoint(q).ID().Parent(lvl)
			if rapid.Bool().Draw(t, label+".cc") {
				p = id.Point()
			} else {
				p = s2.CellFromCellID(id).Vertex(rapid.IntRange(0, 3).Draw(t, label+".cv"))
			}
		case 6:
			p = gen.Base(t, label+".far")
		case 7:
			p = gen.Uniform(t, label+".u")
		case 8, 9:
			q := pick(".oi")
			x, y := frame(q)
			p = at(q, x, y, logUniform(t, label+".od", 1e-9, 1.5), rapid.Float64Range(0, 2*math.Pi).Draw(t, label+".oaz"))
		default:
			p = gen.Perturb(t, label+".vn", pick(".vi2"), 2)
		}
	}
	p = gen.Fix(p, xAxis)
	if rapid.IntRange(0, antipodeOdds).Draw(t, label+".anti") == 0 {
		p = gen.Fix(s2.Point{Vector: p.Mul(-1)}, xAxis)
	}
	return p
}

func drawTarget(t *rapid.T, label string, ic indexCase, verts []gen.P, furthest bool) targetCase {
	odds := 7
	if furthest {
		odds = 1
	}
	a := drawProbe(t, label+".a", ic, verts, odds)
	switch rapid.IntRange(0, 9).Draw(t, label+".kind") {
	case 0, 1, 2, 3:
		return targetCase{Kind: "point", A: gen.FromPt(a)}
	case 4, 5, 6:
		var b s2.Point
		switch rapid.IntRange(0, 3).Draw(t, label+".bk") {
		case 0:
			b = a // degenerate edge
		case 1:
			x, y := frame(a)
			b = at(a, x, y, logUniform(t, label+".bd", 1e-9, 2), rapid.Float64Range(0, 2*math.Pi).Draw(t, label+".baz"))
		default:
			b = drawProbe(t, label+".b", ic, verts, odds)
		}
		if a.Dot(b.Vector) < -0.99 { // endpoints of an edge must not be (nearly) antipodal
			x, y := frame(a)
			b = at(a, x, y, 0.3, 1)
		}
		return targetCase{Kind: "edge", A: gen.FromPt(a), B: gen.FromPt(b)}
	default:
		lvl := rapid.IntRange(0, 30).Draw(t, label+".lvl")
		if rapid.IntRange(0, 3).Draw(t, label+".coarse") == 0 {
			lvl = rapid.IntRange(0, 6).Draw(t, label+".lvl2")
		}
		id := s2.CellFromPoint(a).ID().Parent(lvl)
		return targetCase{Kind: "cell", Cell: uint64(id)}
	}
}

func drawOpt(t *rapid.T, label string, furthest bool, allowApprox bool) optCase {
	var o optCase
	o.MaxResults = rapid.SampledFrom([]int{0, 0, 1, 1, 2, 3, 10}).Draw(t, label+".k")
	switch rapid.IntRange(0, 9).Draw(t, label+".limk") {
	case 0, 1, 2:
		o.LimKind = 0
	case 3, 4:
		o.LimKind = 1
		if furthest {
			switch rapid.IntRange(0, 2).Draw(t, label+".lm") {
			case 0:
				o.LimAbs = rapid.SampledFrom([]float64{4, 0, 3.9999999999999996, -1, 2, 1e-30}).Draw(t, label+".lc")
			default:
				o.LimAbs = rapid.Float64Range(0, 4).Draw(t, label+".lu")
			}
		} else {
			switch rapid.IntRange(0, 3).Draw(t, label+".lm") {
			case 0:
				o.LimAbs = rapid.SampledFrom([]float64{0, 5e-324, 1e-300, 1e-30, 1e-15, 4, 2, 3.9999999999999996}).Draw(t, label+".lc")
			case 1:
				o.LimAbs = rapid.Float64Range(0, 4).Draw(t, label+".lu")
			default:
				o.LimAbs = logUniform(t, label+".ll", 1e-20, 4)
			}
		}
	default:
		o.LimKind = 2
		o.LimRank = rapid.IntRange(0, 40).Draw(t, label+".rank")
		o.LimUlps = rapid.SampledFrom([]int{-6, -4, -3, -2, -1, -1, 0, 0, 0, 1, 1, 2, 3, 4, 6}).Draw(t, label+".ulps")
	}
	if allowApprox && rapid.IntRange(0, 2).Draw(t, label+".approx") == 0 {
		if rapid.IntRange(0, 3).Draw(t, label+".ebig") == 0 {
			o.MaxError = rapid.SampledFrom([]float64{4, 1, 2}).Draw(t, label+".ec")
		} else {
			o.MaxError = logUniform(t, label+".e", 1e-14, 1)
		}
	}
	o.Interiors = rapid.IntRange(0, 2).Draw(t, label+".int")
	o.Brute = rapid.IntRange(0, 3).Draw(t, label+".brute") == 0
	return o
}

func genFind(furthest bool, maxEdgesQ, maxEdgesT int) func(t *rapid.T) findCase {
	return func(t *rapid.T) findCase {
		maxEdges := maxEdgesQ
		if thorough() && rapid.IntRange(0, 3).Draw(t, "bigidx") == 0 {
			maxEdges = maxEdgesT
		}
		ic := drawIndex(t, "ix", 12, maxEdges)
		verts := ic.vertices()
		c := findCase{Index: ic, Furthest: furthest}
		nt := rapid.IntRange(1, 4).Draw(t, "ntargets")
		for i := 0; i < nt; i++ {
			l := fmt.Sprintf("t%d", i)
			tq := targetQ{T: drawTarget(t, l, ic, verts, furthest)}
			no := rapid.IntRange(1, 4).Draw(t, l+".nopts")
			for j := 0; j < no; j++ {
				tq.Opts = append(tq.Opts, drawOpt(t, fmt.Sprintf("%s.o%d", l, j), furthest, true))
			}
			c.Targets = append(c.Targets, tq)
		}
		return c
	}
}

// genFindIndexTarget: the target is a second index.
// genCloud: point clouds on both sides with MaxResults 1, a finite distance limit
// and 0 < MaxError < limit: the combination in which the index target returns
// approximate cell distances and the search has to widen them by MaxError
// (useConservativeCellDistance). About one such configuration in a thousand
// shows a search that forgets to (seeded change C08-r72), so several option sets
// are drawn per case.
// uni01: a uniform draw in [0,1) (rapid's own ranges favour small magnitudes):
// two rapid draws mixed through splitmix64, still a pure function of the draws.
func uni01(t *rapid.T, label string) float64 {
	a := rapid.Uint64().Draw(t, label+".ua")
	b := rapid.Uint64().Draw(t, label+".ub")
	z := a + 0x9e3779b97f4a7c15*(b+1)
	z = (z ^ (z >> 30)) * 0xbf58476d1ce4e5b9
	z = (z ^ (z >> 27)) * 0x94d049bb133111eb
	z ^= z >> 31
	return float64(z>>11) / (1 << 53)
}

func genCloud(t *rapid.T) findCase {
	furthest := rapid.IntRange(0, 3).Draw(t, "cfurthest") != 0
	c := gen.Uniform(t, "cc")
	rad := math.Pow(10, -2*uni01(t, "crad"))
	n := 40 + int(100*uni01(t, "cn"))
	cloud := func(l string, c s2.Point, rad float64, n int) []gen.P {
		var v []gen.P
		for i := 0; i < n; i++ {
			d := gen.Uniform(t, fmt.Sprintf("%s%d", l, i))
			v = append(v, gen.FromPt(gen.Fix(s2.Point{Vector: c.Add(d.Mul(rad * uni01(t, l+"f"))).Normalize()}, c)))
		}
		return v
	}
	ic := indexCase{Shapes: []shapeCase{{Type: "points", Loops: [][]gen.P{cloud("cp", c, rad, n)}}}}
	tc := s2.Point{Vector: c.Mul(-1)}
	if rapid.IntRange(0, 3).Draw(t, "ctfree") != 0 { // (a scan of the seeded change C08-r72 found 95% of its failures here)
		tc = gen.Uniform(t, "ctc")
	}
	trad := math.Pow(10, -1.2*uni01(t, "ctrad"))
	b := indexCase{Shapes: []shapeCase{{Type: "points", Loops: [][]gen.P{cloud("ct", tc, trad, 2+int(5*uni01(t, "ctn")))}}}}
	// the extreme pair distance (plain floats: this only steers the options)
	best := -1.0
	if !furthest {
		best = 5
	}
	for _, p := range ic.Shapes[0].Loops[0] {
		for _, q := range b.Shapes[0].Loops[0] {
			d := float64(s2.ChordAngleBetweenPoints(p.Pt(), q.Pt()))
			if (furthest && d > best) || (!furthest && d < best) {
				best = d
			}
		}
	}
	fc := findCase{Index: ic, Furthest: furthest}
	tq := targetQ{T: targetCase{Kind: "index", Idx: &b}}
	for j := 0; j < 10; j++ {
		l := fmt.Sprintf("co%d", j)
		o := optCase{MaxResults: 1, LimKind: 1, Interiors: 2}
		o.MaxError = best * 0.2 * uni01(t, l+"e")
		if furthest {
			o.LimAbs = best * (0.3 + 0.6*uni01(t, l+"l"))
		} else {
			o.LimAbs = math.Min(4, best*(1.1+3*uni01(t, l+"l"))+o.MaxError)
		}
		tq.Opts = append(tq.Opts, o)
	}
	fc.Targets = append(fc.Targets, tq)
	return fc
}

func genFindIndexTarget(t *rapid.T) findCase {
	if rapid.IntRange(0, 1).Draw(t, "cloud") == 0 {
		return genCloud(t)
	}
	furthest := rapid.Bool().Draw(t, "furthest")
	maxA, maxB := 90, 60
	if thorough() && rapid.IntRange(0, 5).Draw(t, "bigidx") == 0 {
		maxA, maxB = 400, 150
	}
	ic := drawIndex(t, "ix", 8, maxA)
	c := findCase{Index: ic, Furthest: furthest}
	nt := rapid.IntRange(1, 2).Draw(t, "ntargets")
	for i := 0; i < nt; i++ {
		l := fmt.Sprintf("t%d", i)
		var b indexCase
		switch rapid.IntRange(0, 3).Draw(t, l+".rel") {
		case 0:
			// target geometry placed relative to the indexed geometry: shapes about probes
			verts := ic.vertices()
			n := rapid.IntRange(1, 3).Draw(t, l+".nb")
			left := rapid.IntRange(1, maxB).Draw(t, l+".eb")
			for k := 0; k < n && left > 0; k++ {
				p := drawProbe(t, fmt.Sprintf("%s.p%d", l, k), ic, verts, 5)
				s := drawShape(t, fmt.Sprintf("%s.b%d", l, k), p, logUniform(t, l+".bs", 1e-6, 0.5), maxI(1, left/(n-k)))
				left -= s.numEdges()
				b.Shapes = append(b.Shapes, s)
			}
		default:
			b = drawIndex(t, l+".bx", 5, maxB)
		}
		tq := targetQ{T: targetCase{Kind: "index", Idx: &b}}
		no := rapid.IntRange(1, 3).Draw(t, l+".nopts")
		for j := 0; j < no; j++ {
			tq.Opts = append(tq.Opts, drawOpt(t, fmt.Sprintf("%s.o%d", l, j), furthest, true))
		}
		c.Targets = append(c.Targets, tq)
	}
	return c
}
