package c05

import (
	"fmt"
	"math"
	"strings"

	"github.com/golang/geo/s1"
	"github.com/golang/geo/s2"
	"pgregory.net/rapid"

	"verifharness/internal/ev"
	"verifharness/internal/gen"
)

// Probe is a query point; Near marks probes generated next to the boundary.
type Probe struct {
	P    gen.P
	Near bool
}

// Config is a coverer configuration.
type Config struct{ Min, Max, Mod, Cells int }

// coverer returns the configured RegionCoverer. For half of the configurations
// (decided by the configuration itself, so replay is exact) the object has
// already produced coverings of an unrelated region: a RegionCoverer is an
// options value that users keep and reuse, and its answers must not depend on
// what it covered before.
func (c Config) coverer() *s2.RegionCoverer {
	rc := &s2.RegionCoverer{MinLevel: c.Min, MaxLevel: c.Max, LevelMod: c.Mod, MaxCells: c.Cells}
	if (c.Min+c.Max+c.Cells+c.Mod)%2 == 0 {
		// (a leaf cell: with MinLevel up to 30 anything larger could need 10^13 cells)
		decoy := s2.CellFromCellID(s2.CellIDFromFacePosLevel(3, 0x123456789abcdef, 30))
		rc.Covering(decoy)
		rc.InteriorCovering(decoy)
		rc.FastCovering(decoy)
	}
	return rc
}

func (c Config) mod() int {
	if c.Mod < 1 {
		return 1
	}
	if c.Mod > 3 {
		return 3
	}
	return c.Mod
}

var tinyOffsets = []float64{0, 1e-15, 3e-14, 1e-13, 1e-11, 1e-8}

func logUniform(t *rapid.T, label string, lo, hi float64) float64 {
	return math.Exp(rapid.Float64Range(math.Log(lo), math.Log(hi)).Draw(t, label))
}

// ---------------------------------------------------------------- regions

func genCap(t *rapid.T) Spec {
	c := gen.SpecialCenter(t, "cap.c")
	s := Spec{Kind: "cap", C: gen.FromPt(c)}
	var ang float64
	switch rapid.IntRange(0, 15).Draw(t, "cap.rk") {
	case 8:
		s.Family, ang = "point-cap", 0
	case 9:
		s.Family, ang = "hemisphere", math.Pi/2+float64(rapid.IntRange(-2, 2).Draw(t, "cap.hu"))*1e-15
	case 10:
		s.Family, ang = "full", math.Pi
	case 11, 12:
		s.Family, ang = "near-full", math.Pi-logUniform(t, "cap.nf", 1e-7, 0.5)
	case 13, 14:
		s.Family, ang = "large", rapid.Float64Range(math.Pi/2, math.Pi).Draw(t, "cap.big")
	case 15:
		s.Family = "empty"
		s.R2 = -1
		s.Scale = 1e-9
		return s
	case 3, 4:
		// centre just outside a cell edge, radius around the distance to the edge:
		// the cap enters the cell through the edge interior only (or just misses it)
		id := gen.CellID(t, "cap.pc")
		if id.Level() > 24 {
			id = id.Parent(24)
		}
		cell := s2.CellFromCellID(id)
		k := rapid.IntRange(0, 3).Draw(t, "cap.pk")
		f := rapid.Float64Range(0.15, 0.85).Draw(t, "cap.pf")
		out := -rapid.Float64Range(0.01, 0.4).Draw(t, "cap.po") // fraction of the cell size beyond the edge
		var q, e s2.Point
		switch k {
		case 0:
			q, e = cellPoint(cell, f, out), cellPoint(cell, f, 0)
		case 1:
			q, e = cellPoint(cell, 1-out, f), cellPoint(cell, 1, f)
		case 2:
			q, e = cellPoint(cell, f, 1-out), cellPoint(cell, f, 1)
		default:
			q, e = cellPoint(cell, out, f), cellPoint(cell, 0, f)
		}
		q = gen.Fix(q, c)
		d := float64(q.Distance(e))
		mul := rapid.SampledFrom([]float64{1.3, 1.05, 1.001, 1 + 1e-6, 1 - 1e-6, 0.999, 0.9}).Draw(t, "cap.pm")
		ang = d * mul
		s.C = gen.FromPt(q)
		s.Family = "edge-poke"
		s.Hint = uint64(id)
	case 5, 6, 7:
		// radius equal to the distance to a cell vertex / edge of a nearby cell (tangent configurations)
		lvl := rapid.IntRange(0, 24).Draw(t, "cap.tl")
		cell := s2.CellFromCellID(leafID(c).Parent(lvl))
		k := rapid.IntRange(0, 3).Draw(t, "cap.tv")
		var q s2.Point
		if rapid.Bool().Draw(t, "cap.tedge") {
			q = cellPoint(cell, []float64{0.5, 1, 0.5, 0}[k], []float64{0, 0.5, 1, 0.5}[k])
			s.Family = "touch-edge"
		} else {
			q = cell.Vertex(k)
			s.Family = "touch-vertex"
		}
		r2 := c.Sub(q.Vector).Norm2()
		r2 = gen.Ulps(r2, rapid.IntRange(-40, 40).Draw(t, "cap.tu"))
		if r2 < 0 {
			r2 = 0
		}
		if r2 > 4 {
			r2 = 4
		}
		s.R2 = r2
		s.Scale = math.Max(1e-9, 2*math.Asin(math.Min(1, 0.5*math.Sqrt(r2))))
		s.Hint = uint64(cell.ID().EdgeNeighbors()[k])
		return s
	default:
		s.Family, ang = "general", logUniform(t, "cap.lr", 1e-7, math.Pi)
	}
	s.R2 = float64(s1.ChordAngleFromAngle(s1.Angle(ang)))
	s.Scale = math.Max(ang, 1e-9)
	return s
}

func genRect(t *rapid.T) Spec {
	s := Spec{Kind: "rect"}
	c := gen.SpecialCenter(t, "rect.c")
	clat, clng := latLng(c)
	h := logUniform(t, "rect.h", 1e-7, math.Pi/2)
	w := logUniform(t, "rect.w", 1e-7, math.Pi)
	if rapid.Bool().Draw(t, "rect.sq") {
		w = h
	}
	lat0, lat1 := clat-h/2, clat+h/2
	lng0, lng1 := clng-w/2, clng+w/2
	s.Family = "box"
	switch rapid.IntRange(0, 14).Draw(t, "rect.fam") {
	case 0:
		s.Family = "north-cap"
		lat1, lng0, lng1 = math.Pi/2, -math.Pi, math.Pi
	case 1:
		s.Family = "south-cap"
		lat0, lng0, lng1 = -math.Pi/2, -math.Pi, math.Pi
	case 2:
		s.Family = "polar-wedge" // reaches the pole without spanning all longitudes
		if clat >= 0 {
			lat1 = math.Pi / 2
		} else {
			lat0 = -math.Pi / 2
		}
	case 3:
		s.Family = "antimeridian"
		lng0 = math.Pi - w*rapid.Float64Range(0, 1).Draw(t, "rect.am")
		lng1 = lng0 + w
	case 4:
		s.Family = "full"
		lat0, lat1, lng0, lng1 = -math.Pi/2, math.Pi/2, -math.Pi, math.Pi
	case 5:
		s.Family = "band"
		lng0, lng1 = -math.Pi, math.Pi
	case 6:
		s.Family = "point"
		lat0, lat1, lng0, lng1 = clat, clat, clng, clng
	case 7:
		s.Family = "meridian-segment"
		lng0, lng1 = clng, clng
	case 8:
		s.Family = "parallel-segment"
		lat0, lat1 = clat, clat
	case 10, 11:
		// the lower (in |lat|) parallel edge cuts the poleward bulge of a cell edge:
		// the cell on the equator side meets the rectangle only between its vertices
		// (only face cells have an edge that spans the apex of its great circle)
		id := s2.CellIDFromFace(rapid.IntRange(0, 5).Draw(t, "rect.bc"))
		cell := s2.CellFromCellID(id)
		k := rapid.IntRange(0, 3).Draw(t, "rect.bk")
		a, b := cell.Vertex(k), cell.Vertex((k+1)&3)
		m := s2.Point{Vector: a.Add(b.Vector).Normalize()}
		la, _ := latLng(a)
		lb, _ := latLng(b)
		lm, _ := latLng(m)
		_, lga := latLng(a)
		_, lgb := latLng(b)
		end := math.Max(math.Abs(la), math.Abs(lb))
		if la*lb > 0 && math.Abs(lm) > end+1e-9 && math.Abs(lm) < 1.5 {
			f := rapid.SampledFrom([]float64{0.01, 0.1, 0.5, 0.9, 0.99}).Draw(t, "rect.bf")
			cut := end + f*(math.Abs(lm)-end)
			if lm > 0 {
				lat0, lat1 = cut, math.Min(math.Pi/2, cut+h)
			} else {
				lat0, lat1 = math.Max(-math.Pi/2, -cut-h), -cut
			}
			span := s1.IntervalFromPointPair(lga, lgb)
			ctr := span.Center()
			ww := span.Length() * rapid.SampledFrom([]float64{0.05, 0.3, 0.9, 1.5}).Draw(t, "rect.bw")
			lng0, lng1 = ctr-ww/2, ctr+ww/2
			s.Family = "edge-bulge"
			s.Hint = uint64(id)
		}
	case 12, 13:
		// a meridian edge of the rectangle runs along a cell edge: on the four
		// equatorial faces the u = const sides of a cell are meridians, and all finer
		// cells along that side share the line. 0..2 ulps off, zero width or one side.
		id := gen.CellIDAt(t, "rect.ec", rapid.SampledFrom([]int{0, 1, 3, 4}).Draw(t, "rect.ef"), rapid.IntRange(2, 20).Draw(t, "rect.el"))
		cell := s2.CellFromCellID(id)
		vlat, vlng := latLng(cell.Vertex(rapid.IntRange(0, 3).Draw(t, "rect.ek")))
		vlng = gen.Ulps(vlng, rapid.IntRange(-2, 2).Draw(t, "rect.eu"))
		s.Family = "meridian-on-cell-edge"
		lng0, lng1 = vlng, vlng
		switch rapid.IntRange(0, 2).Draw(t, "rect.es") {
		case 1:
			lng1 = vlng + w
			s.Family = "west-edge-on-cell-edge"
		case 2:
			lng0 = vlng - w
			s.Family = "east-edge-on-cell-edge"
		}
		lat0, lat1 = vlat-h*rapid.Float64Range(0, 1).Draw(t, "rect.e0"), vlat+h*rapid.Float64Range(0, 1).Draw(t, "rect.e1")
		s.Hint = uint64(id)
	case 9:
		s.Family = "wide" // wider than 180 degrees
		w = rapid.Float64Range(math.Pi, 2*math.Pi-1e-3).Draw(t, "rect.wide")
		lng0, lng1 = clng-w/2, clng+w/2
	}
	lat0 = math.Max(-math.Pi/2, lat0)
	lat1 = math.Min(math.Pi/2, lat1)
	if lat0 > lat1 {
		lat0, lat1 = lat1, lat0
	}
	if !(lng0 == -math.Pi && lng1 == math.Pi) {
		lng0 = math.Remainder(lng0, 2*math.Pi)
		lng1 = math.Remainder(lng1, 2*math.Pi)
		if lng0 == -math.Pi {
			lng0 = math.Pi
		}
		if lng1 == -math.Pi {
			lng1 = math.Pi
		}
		if lng0 == math.Pi && lng1 == -math.Pi {
			lng1 = math.Pi
		}
	}
	s.Lat = [2]float64{lat0, lat1}
	s.Lng = [2]float64{lng0, lng1}
	ln := lng1 - lng0
	if ln < 0 {
		ln += 2 * math.Pi
	}
	s.Scale = math.Min(math.Pi, math.Max(1e-9, math.Max(lat1-lat0, ln)/2*1.5))
	return s
}

func cellScale(level int) float64 { return 1.3 * math.Ldexp(1, -level) }

func genCell(t *rapid.T) Spec {
	id := gen.CellID(t, "cell")
	return Spec{Kind: "cell", Family: fmt.Sprintf("level/10=%d", id.Level()/10), Cells: []uint64{uint64(id)}, Scale: cellScale(id.Level())}
}

func genCellUnion(t *rapid.T) Spec {
	base := gen.CellID(t, "cu.base")
	if base.Level() > 28 {
		base = base.Parent(28)
	}
	n := rapid.IntRange(1, 24).Draw(t, "cu.n")
	cu := s2.CellUnion{}
	far := false
	cur := base
	for i := 0; i < n; i++ {
		l := fmt.Sprintf("cu.%d", i)
		switch rapid.IntRange(0, 7).Draw(t, l+".k") {
		case 0:
			cu = append(cu, cur)
		case 1:
			if !cur.IsLeaf() {
				cur = cur.Children()[rapid.IntRange(0, 3).Draw(t, l+".ch")]
			}
			cu = append(cu, cur)
		case 2:
			cur = cur.EdgeNeighbors()[rapid.IntRange(0, 3).Draw(t, l+".nb")]
			cu = append(cu, cur)
		case 3:
			if cur.Level() > 0 {
				cur = cur.Parent(cur.Level() - 1)
				cur = cur.EdgeNeighbors()[rapid.IntRange(0, 3).Draw(t, l+".pnb")]
			}
			cu = append(cu, cur)
		case 4:
			// three of four siblings, or all four (collapses)
			if cur.Level() > 0 {
				p := cur.Parent(cur.Level() - 1)
				skip := rapid.IntRange(0, 4).Draw(t, l+".skip")
				for k, ch := range p.Children() {
					if k != skip {
						cu = append(cu, ch)
					}
				}
			}
		case 5:
			// deep descendant
			d := cur
			steps := rapid.IntRange(1, 12).Draw(t, l+".deep")
			for s := 0; s < steps && !d.IsLeaf(); s++ {
				d = d.Children()[rapid.IntRange(0, 3).Draw(t, l+".dch")]
			}
			cu = append(cu, d)
		case 6:
			// somewhere else entirely
			cur = gen.CellID(t, l+".far")
			if cur.Level() > 28 {
				cur = cur.Parent(28)
			}
			cu = append(cu, cur)
			far = true
		default:
			cur = base
			cu = append(cu, cur)
		}
	}
	if len(cu) == 0 {
		cu = append(cu, base)
	}
	cu.Normalize()
	s := Spec{Kind: "cellunion", Family: fmt.Sprintf("far=%v", far)}
	minLvl := 30
	for _, c := range cu {
		s.Cells = append(s.Cells, uint64(c))
		if c.Level() < minLvl {
			minLvl = c.Level()
		}
	}
	// extent: largest centre distance from the first cell plus the largest cell size
	ext := 0.0
	c0 := cu[0].Point()
	for _, c := range cu {
		if d := float64(c0.Distance(c.Point())); d > ext {
			ext = d
		}
	}
	s.Scale = math.Min(math.Pi, ext+2*cellScale(minLvl))
	return s
}

func maxDist(c s2.Point, rings [][]gen.P) float64 {
	m := 0.0
	for _, r := range rings {
		for _, v := range r {
			if d := float64(c.Distance(v.Pt())); d > m {
				m = d
			}
		}
	}
	return m
}

func genLoop(t *rapid.T) Spec {
	s := Spec{Kind: "loop"}
	switch rapid.IntRange(0, 59).Draw(t, "loop.sp") {
	case 30:
		s.Full, s.Family, s.Scale = true, "full", math.Pi
		return s
	case 31:
		s.Empty, s.Family, s.Scale = true, "empty", 1e-9
		return s
	}
	maxN := 40
	switch rapid.IntRange(0, 9).Draw(t, "loop.big") {
	case 0, 1, 2:
		maxN = 130
	case 3:
		maxN = 400
	}
	if ev.Thorough() && rapid.IntRange(0, 9).Draw(t, "loop.huge") == 0 {
		maxN = 600
	}
	l := gen.Loop(t, "loop", maxN)
	s.Rings = [][]gen.P{l.V}
	s.Known = l.Inside
	s.KnownIn = l.KnownContains()
	s.Family = fmt.Sprintf("%s/inv=%v", l.Kind, l.Inverted)
	if l.Inverted {
		s.Scale = math.Pi
	} else {
		s.Scale = math.Max(1e-9, maxDist(l.Inside.Pt(), s.Rings))
	}
	return s
}

func genPolygon(t *rapid.T) Spec {
	s := Spec{Kind: "polygon"}
	switch rapid.IntRange(0, 59).Draw(t, "pg.sp") {
	case 30:
		s.Full, s.Family, s.Scale = true, "full", math.Pi
		return s
	case 31:
		s.Empty, s.Family, s.Scale = true, "empty", 1e-9
		return s
	}
	if rapid.IntRange(0, 3).Draw(t, "pg.multi") == 0 {
		// several disjoint shells: lattice rectangles on one face grid, at least
		// one grid cell apart (integer truth), some with a nested hole
		face := rapid.IntRange(0, 5).Draw(t, "pg.face")
		level := rapid.IntRange(2, 5).Draw(t, "pg.level")
		var rects []gen.LatticeRect
		tries := 4
		if rapid.IntRange(0, 3).Draw(t, "pg.many") == 0 {
			tries = 12 // more than 12 loops: the polygon switches to cumulative edge offsets
			level = 5
		}
		for i := 0; i < tries; i++ {
			r := gen.DrawLatticeRect(t, fmt.Sprintf("pg.r%d", i), face, level, 24)
			ok := true
			for _, o := range rects {
				if r.I0 <= o.I1 && o.I0 <= r.I1 && r.J0 <= o.J1 && o.J0 <= r.J1 {
					ok = false
				}
			}
			if ok {
				rects = append(rects, r)
			}
		}
		for i, r := range rects {
			s.Rings = append(s.Rings, r.Vertices())
			// a hole strictly inside (needs a 3x3 rectangle at least)
			if r.I1-r.I0 >= 3 && r.J1-r.J0 >= 3 && rapid.Bool().Draw(t, fmt.Sprintf("pg.h%d", i)) {
				h := gen.LatticeRect{Face: face, Level: level, I0: r.I0 + 1, J0: r.J0 + 1, I1: r.I1 - 1, J1: r.J1 - 1}
				s.Rings = append(s.Rings, h.Vertices())
			}
		}
		// known point: centre of the corner grid cell of the first rectangle (in
		// the shell, outside its hole, which starts one cell further in)
		s.Known = gen.FromPt(rects[0].CenterOfCell(rects[0].I0, rects[0].J0))
		s.KnownIn = true
		s.Family = fmt.Sprintf("lattice-shells=%d", len(rects))
		if len(s.Rings) > 12 {
			s.Family = "lattice-loops>12"
		}
		s.Scale = math.Max(1e-9, maxDist(s.Known.Pt(), s.Rings))
		return s
	}
	maxN := 24
	if rapid.IntRange(0, 5).Draw(t, "pg.big") == 0 {
		maxN = 70
	}
	rp := gen.DrawRings(t, "pg", 4, maxN)
	s.Rings = rp.Rings
	s.Known = rp.Center
	s.KnownIn = len(rp.Rings)%2 == 1
	s.Family = fmt.Sprintf("rings=%d", len(rp.Rings))
	s.Scale = math.Max(1e-9, maxDist(rp.Center.Pt(), s.Rings))
	return s
}

func genPolyline(t *rapid.T) Spec {
	s := Spec{Kind: "polyline"}
	p := gen.SpecialCenter(t, "pl.c")
	n := rapid.IntRange(1, 40).Draw(t, "pl.n")
	total := logUniform(t, "pl.len", 1e-7, 3)
	if rapid.IntRange(0, 7).Draw(t, "pl.long") == 0 {
		total = rapid.Float64Range(3, 12).Draw(t, "pl.longlen")
	}
	step := total / float64(n)
	if step > 2.5 {
		step = 2.5
	}
	v := []gen.P{gen.FromPt(p)}
	az := rapid.Float64Range(0, 2*math.Pi).Draw(t, "pl.az")
	for i := 1; i < n; i++ {
		x, y := frame(p)
		az += rapid.Float64Range(-1.2, 1.2).Draw(t, "pl.turn")
		q := at(p, x, y, step*rapid.Float64Range(0.3, 1).Draw(t, "pl.f"), az)
		if q == p {
			continue
		}
		v = append(v, gen.FromPt(q))
		p = q
	}
	s.Rings = [][]gen.P{v}
	s.Family = fmt.Sprintf("n<=2=%v", len(v) <= 2)
	s.Scale = math.Min(math.Pi, math.Max(1e-9, total))
	return s
}

func genPoint(t *rapid.T) Spec {
	return Spec{Kind: "point", Family: "point", C: gen.FromPt(gen.Base(t, "pt")), Scale: 1e-9}
}

// genSpec draws a region. rapid's integer draws favour small values, so the
// kinds with the most intricate predicates come first.
func genSpec(t *rapid.T) Spec {
	switch rapid.IntRange(0, 19).Draw(t, "kind") {
	case 0, 1, 2:
		return genLoop(t)
	case 3, 4:
		return genPolygon(t)
	case 5, 6, 7:
		return genRect(t)
	case 8, 9, 10, 11:
		return genCap(t)
	case 12, 13:
		return genPolyline(t)
	case 14, 15, 16:
		return genCellUnion(t)
	case 17, 18:
		return genCell(t)
	default:
		return genPoint(t)
	}
}

// ---------------------------------------------------------------- probes

func allVertices(s Spec) []gen.P {
	var v []gen.P
	for _, r := range s.Rings {
		v = append(v, r...)
	}
	return v
}

func genProbes(t *rapid.T, s Spec, n int) []Probe {
	var out []Probe
	add := func(p s2.Point, near bool) {
		out = append(out, Probe{P: gen.FromPt(gen.Fix(p, s2.PointFromCoords(1, 0, 0))), Near: near})
	}
	off := func(l string) float64 {
		o := rapid.SampledFrom(tinyOffsets).Draw(t, l+".off")
		if rapid.Bool().Draw(t, l+".offs") {
			return -o
		}
		return o
	}
	switch s.Kind {
	case "cap":
		c := s.C.Pt()
		th := 0.0
		if s.R2 >= 4 {
			th = math.Pi
		} else if s.R2 > 0 {
			th = 2 * math.Asin(0.5*math.Sqrt(s.R2))
		}
		x, y := frame(c)
		for i := 0; i < n; i++ {
			l := fmt.Sprintf("q%d", i)
			az := rapid.Float64Range(0, 2*math.Pi).Draw(t, l+".az")
			var r float64
			near := false
			switch rapid.IntRange(0, 5).Draw(t, l+".m") {
			case 0, 1:
				r = th * rapid.Float64Range(0, 1).Draw(t, l+".f")
			case 2, 3:
				r, near = th+off(l), true
			case 4:
				r = th * (1 + rapid.Float64Range(0, 1).Draw(t, l+".g"))
			default:
				r, near = th*(1-logUniform(t, l+".h", 1e-12, 0.1)), true
			}
			r = math.Max(0, math.Min(math.Pi, r))
			add(at(c, x, y, r, az), near)
		}
	case "rect":
		ln := s.Lng[1] - s.Lng[0]
		if ln < 0 {
			ln += 2 * math.Pi
		}
		for i := 0; i < n; i++ {
			l := fmt.Sprintf("q%d", i)
			near := false
			pick := func(lo, span float64, ll string) float64 {
				switch rapid.IntRange(0, 5).Draw(t, ll+".m") {
				case 0:
					near = true
					return lo + off(ll)
				case 1:
					near = true
					return lo + span + off(ll)
				case 2:
					return lo + span/2
				case 3:
					return lo + span*(1+rapid.Float64Range(0, 0.5).Draw(t, ll+".o"))
				default:
					return lo + span*rapid.Float64Range(0, 1).Draw(t, ll+".f")
				}
			}
			lat := pick(s.Lat[0], s.Lat[1]-s.Lat[0], l+".lat")
			lng := pick(s.Lng[0], ln, l+".lng")
			lat = math.Max(-math.Pi/2, math.Min(math.Pi/2, lat))
			add(fromLatLng(lat, math.Remainder(lng, 2*math.Pi)), near)
		}
	case "cell", "cellunion":
		fs := []float64{0, 1, 0.5, 1e-12, 1 - 1e-12, -1e-9, 1 + 1e-9, 0.02, 0.98}
		for i := 0; i < n; i++ {
			l := fmt.Sprintf("q%d", i)
			id := s2.CellID(s.Cells[rapid.IntRange(0, len(s.Cells)-1).Draw(t, l+".ci")])
			if rapid.IntRange(0, 4).Draw(t, l+".nb") == 0 {
				id = id.EdgeNeighbors()[rapid.IntRange(0, 3).Draw(t, l+".nbk")]
			}
			var fu, fv float64
			near := true
			if rapid.Bool().Draw(t, l+".rnd") {
				fu, fv = rapid.Float64Range(0, 1).Draw(t, l+".fu"), rapid.Float64Range(0, 1).Draw(t, l+".fv")
				near = false
			} else {
				fu, fv = rapid.SampledFrom(fs).Draw(t, l+".su"), rapid.SampledFrom(fs).Draw(t, l+".sv")
			}
			add(cellPoint(s2.CellFromCellID(id), fu, fv), near)
		}
	case "loop", "polygon", "polyline":
		v := allVertices(s)
		if len(v) == 0 {
			for i := 0; i < n; i++ {
				add(gen.Base(t, fmt.Sprintf("q%d", i)), false)
			}
			break
		}
		k := n
		if s.Kind == "polygon" {
			k = n / 2
		}
		for _, p := range gen.ProbePoints(t, "q", v, k) {
			out = append(out, Probe{P: p, Near: true})
		}
		if s.Kind == "polygon" {
			c := s.Known.Pt()
			x, y := frame(c)
			for i := k; i < n; i++ {
				l := fmt.Sprintf("qr%d", i)
				r := s.Scale * rapid.Float64Range(0, 1.3).Draw(t, l+".r")
				add(at(c, x, y, math.Min(r, math.Pi), rapid.Float64Range(0, 2*math.Pi).Draw(t, l+".az")), false)
			}
		}
	case "point":
		p := s.C.Pt()
		for i := 0; i < n; i++ {
			l := fmt.Sprintf("q%d", i)
			switch rapid.IntRange(0, 2).Draw(t, l+".m") {
			case 0:
				add(p, true)
			case 1:
				add(gen.Perturb(t, l, p, 3), true)
			default:
				add(gen.Related(t, l, []s2.Point{p}), false)
			}
		}
	}
	// a few global points
	for i := 0; i < 3; i++ {
		add(gen.Base(t, fmt.Sprintf("far%d", i)), false)
	}
	return out
}

// ---------------------------------------------------------------- configurations

var maxCellsChoices = []int{0, 1, 2, 3, 4, 8, 8, 20, 100, 100, 10000}

// safeMinLevel bounds MinLevel so that the number of MinLevel cells meeting
// the region stays moderate (the documentation: "an arbitrary number of cells
// may be returned if MinLevel is too high"; that is slow, not wrong).
func safeMinLevel(s Spec) int {
	if s.Kind == "cellunion" || s.Kind == "cell" {
		for m := 30; m >= 0; m-- {
			tot := 0.0
			for _, c := range s.Cells {
				d := m - s2.CellID(c).Level()
				if d > 0 {
					tot += math.Pow(4, float64(d))
				} else {
					tot++
				}
			}
			if tot <= 1500 {
				return m
			}
		}
		return 0
	}
	sc := s.Scale
	if s.Kind == "polyline" {
		// thin: the count grows linearly
		m := int(math.Floor(math.Log2(300 / math.Max(sc, 1e-9))))
		return clampLevel(m)
	}
	m := int(math.Floor(math.Log2(9 / math.Max(sc, 1e-9))))
	return clampLevel(m)
}

func clampLevel(l int) int {
	if l < 0 {
		return 0
	}
	if l > 30 {
		return 30
	}
	return l
}

func genConfig(t *rapid.T, s Spec, mode string) Config {
	interior := mode == "interior"
	safe := safeMinLevel(s)
	if mode == "fast" {
		// FastCovering refines the cells of CellUnionBound (a covering of the
		// bounding cap) down to MinLevel, whatever the region's shape.
		if f := clampLevel(int(math.Floor(math.Log2(9 / math.Max(s.Scale, 1e-9))))); f < safe {
			safe = f
		}
	}
	var c Config
	c.Mod = rapid.IntRange(0, 3).Draw(t, "cfg.mod")
	c.Cells = rapid.SampledFrom(maxCellsChoices).Draw(t, "cfg.cells")
	switch rapid.IntRange(0, 3).Draw(t, "cfg.mink") {
	case 0:
		c.Min = 0
	case 1:
		c.Min = safe - rapid.IntRange(0, 3).Draw(t, "cfg.mins")
	default:
		c.Min = rapid.IntRange(0, safe).Draw(t, "cfg.min")
	}
	c.Min = clampLevel(c.Min)
	if c.Min > safe {
		c.Min = safe
	}
	switch rapid.IntRange(0, 4).Draw(t, "cfg.maxk") {
	case 0:
		c.Max = c.Min
	case 1:
		c.Max = 30
	case 2:
		c.Max = c.Min + rapid.IntRange(0, 4).Draw(t, "cfg.maxs")
	default:
		c.Max = rapid.IntRange(c.Min, 30).Draw(t, "cfg.max")
	}
	c.Max = clampLevel(c.Max)
	if interior {
		// the documentation warns that interior coverings of small or thin
		// regions subdivide to MaxLevel; cap the depth below the region's scale.
		lim := levelForScale(s.Scale) + 7
		if c.Cells >= 10000 {
			lim -= 2
		}
		if s.Kind == "polyline" || s.Kind == "point" {
			lim = levelForScale(s.Scale) + 5
			if s.Kind == "point" {
				lim = 30
			}
		}
		if s.Kind == "cellunion" || s.Kind == "cell" {
			lim = 0
			for _, id := range s.Cells {
				if l := s2.CellID(id).Level(); l > lim {
					lim = l
				}
			}
			lim += 4
		}
		if c.Max > lim {
			c.Max = clampLevel(lim)
		}
		if c.Min > c.Max {
			c.Min = c.Max
		}
	}
	return c
}

// ---------------------------------------------------------------- cases

type covCase struct {
	R      Spec
	Cfg    Config
	Probes []Probe
}

func genCovCase(t *rapid.T) covCase {
	s := genSpec(t)
	return covCase{R: s, Cfg: genConfig(t, s, "covering"), Probes: genProbes(t, s, 20)}
}

func genFastCase(t *rapid.T) covCase {
	s := genSpec(t)
	return covCase{R: s, Cfg: genConfig(t, s, "fast"), Probes: genProbes(t, s, 20)}
}

func genIntCase(t *rapid.T) covCase {
	s := genSpec(t)
	return covCase{R: s, Cfg: genConfig(t, s, "interior"), Probes: genProbes(t, s, 6)}
}

type predCase struct {
	R      Spec
	Cell   uint64
	F      [][2]float64
	Probes []Probe
}

func genPredCase(t *rapid.T) predCase {
	s := genSpec(t)
	probes := genProbes(t, s, 8)
	c := predCase{R: s, Probes: probes}
	// anchor: a probe (they are generated around the region) or a feature
	anchors := []s2.Point{}
	for _, p := range probes {
		anchors = append(anchors, p.P.Pt())
	}
	anchors = append(anchors, s.Features()...)
	a := anchors[rapid.IntRange(0, len(anchors)-1).Draw(t, "pc.anchor")]
	if fs := s.Features(); len(fs) > 0 && rapid.IntRange(0, 3).Draw(t, "pc.a0") == 0 {
		a = fs[0] // the centre / first vertex
	}
	L := levelForScale(s.Scale)
	// guided: 0,1 = none, 2 = look for a sliver (cells larger than the region's
	// features), 3 = look for a notch
	guided := rapid.IntRange(0, 3).Draw(t, "pc.guided")
	var lvl int
	switch {
	case guided == 2:
		lvl = L - rapid.IntRange(-1, 5).Draw(t, "pc.ls")
	case guided == 3:
		lvl = L + rapid.IntRange(-3, 4).Draw(t, "pc.ln")
	default:
		switch rapid.IntRange(0, 3).Draw(t, "pc.lk") {
		case 0, 1:
			lvl = L + rapid.IntRange(-4, 8).Draw(t, "pc.l1")
		case 2:
			lvl = rapid.IntRange(0, 30).Draw(t, "pc.l2")
		default:
			lvl = L + rapid.IntRange(8, 20).Draw(t, "pc.l3")
		}
	}
	lvl = clampLevel(lvl)
	id := leafID(a).Parent(lvl)
	if s.cellKind() && rapid.Bool().Draw(t, "pc.member") {
		id = s2.CellID(s.Cells[rapid.IntRange(0, len(s.Cells)-1).Draw(t, "pc.mi")])
		switch rapid.IntRange(0, 3).Draw(t, "pc.mrel") {
		case 0:
			if id.Level() > 0 {
				id = id.Parent(rapid.IntRange(0, id.Level()-1).Draw(t, "pc.mpar"))
			}
		case 1:
			for k := rapid.IntRange(1, 4).Draw(t, "pc.mdeep"); k > 0 && !id.IsLeaf(); k-- {
				id = id.Children()[rapid.IntRange(0, 3).Draw(t, "pc.mch")]
			}
		}
	}
	useHint := s.Hint != 0 && rapid.Bool().Draw(t, "pc.hint")
	if useHint {
		id = s2.CellID(s.Hint)
		guided = 0
	}
	switch nb := rapid.IntRange(0, 7).Draw(t, "pc.nb"); {
	case useHint:
	case nb <= 2:
		// the neighbour across the edge nearest to the anchor: the region's
		// boundary feature then lies next to a cell edge, from outside
		if u, v, ok := faceUV(id.Face(), a.Vector); ok {
			b := s2.CellFromCellID(id).BoundUV()
			fu := (u - b.X.Lo) / (b.X.Hi - b.X.Lo)
			fv := (v - b.Y.Lo) / (b.Y.Hi - b.Y.Lo)
			k, best := 3, fu // left
			if 1-fu < best {
				k, best = 1, 1-fu
			}
			if fv < best {
				k, best = 0, fv
			}
			if 1-fv < best {
				k = 2
			}
			id = id.EdgeNeighbors()[k]
		}
	case nb == 3:
		id = id.EdgeNeighbors()[rapid.IntRange(0, 3).Draw(t, "pc.nbk")]
	case nb == 4:
		if id.Level() > 0 {
			vn := id.VertexNeighbors(id.Level() - 1)
			id = vn[rapid.IntRange(0, len(vn)-1).Draw(t, "pc.vnk")]
		}
	}
	// oracle-guided choice (deterministic given the draws): among the cell, its
	// neighbours, parent and children prefer one that the region enters without
	// containing a vertex or the centre ("sliver"), or one whose vertices and
	// centre are all in the region while the boundary enters it ("notch").
	if guided >= 2 {
		cands := []s2.CellID{id}
		cands = append(cands, id.AllNeighbors(id.Level())...)
		if id.Level() > 0 {
			par := id.Parent(id.Level() - 1)
			cands = append(cands, par)
			cands = append(cands, par.AllNeighbors(par.Level())...)
		}
		if !id.IsLeaf() {
			ch := id.Children()
			cands = append(cands, ch[:]...)
		}
		if pick, ok := guidedTarget(s, cands, guided == 2); ok {
			id = pick
		}
	}
	c.Cell = uint64(id)
	for i := 0; i < 8; i++ {
		c.F = append(c.F, [2]float64{rapid.Float64Range(0, 1).Draw(t, "pc.fu"), rapid.Float64Range(0, 1).Draw(t, "pc.fv")})
	}
	return c
}

// directedPoints returns points of the cell that are likely to be in the
// region even if no vertex is: region features inside the cell, the uv clamp
// of features onto the cell, and the region's nearest points to the cell's
// centre, vertices and edge midpoints (kept if they fall in the cell).
func directedPoints(s Spec, cell s2.Cell, feats []s2.Point) []s2.Point {
	var out []s2.Point
	targets := []s2.Point{cell.Center()}
	for k := 0; k < 4; k++ {
		targets = append(targets, cell.Vertex(k))
	}
	targets = append(targets, cellPoint(cell, 0.5, 0), cellPoint(cell, 1, 0.5), cellPoint(cell, 0.5, 1), cellPoint(cell, 0, 0.5))
	all := append([]s2.Point{}, feats...)
	for _, tg := range targets {
		all = append(all, s.NearestIn(tg)...)
	}
	b := cell.BoundUV()
	size := b.X.Hi - b.X.Lo
	for _, f := range all {
		if sl, ok := uvSlack(cell, f); ok && sl >= 0 {
			out = append(out, f)
			// and points around it, still inside the cell
			if u, v, ok := faceUV(cell.Face(), f.Vector); ok {
				for _, d := range [][2]float64{{1, 0}, {-1, 0}, {0, 1}, {0, -1}} {
					for _, h := range []float64{1e-3 * size, 0.05 * size} {
						uu := math.Max(b.X.Lo, math.Min(b.X.Hi, u+d[0]*h))
						vv := math.Max(b.Y.Lo, math.Min(b.Y.Hi, v+d[1]*h))
						out = append(out, s2.Point{Vector: gen.FaceUVToXYZ(cell.Face(), uu, vv).Normalize()})
					}
				}
			}
		} else if q, ok := clampToCell(cell, f); ok {
			out = append(out, q)
		}
	}
	return out
}

func guidedTarget(s Spec, cands []s2.CellID, sliver bool) (s2.CellID, bool) {
	feats := s.Features()
	if len(feats) > 24 {
		feats = feats[:24]
	}
	for _, id := range cands {
		if !id.IsValid() {
			continue
		}
		cell := s2.CellFromCellID(id)
		corner := []s2.Point{cell.Center(), cell.Vertex(0), cell.Vertex(1), cell.Vertex(2), cell.Vertex(3)}
		ok := true
		for _, p := range corner {
			m := s.Member(p)
			if (sliver && m == mIn) || (!sliver && m != mIn) {
				ok = false
				break
			}
		}
		if !ok {
			continue
		}
		for _, p := range directedPoints(s, cell, feats) {
			m := s.Member(p)
			if (sliver && m == mIn) || (!sliver && m == mOut) {
				return id, true
			}
		}
	}
	return 0, false
}

// ---------------------------------------------------------------- flood fill

type floodCase struct {
	R      Spec
	Level  int
	Start  gen.P
	Probes []Probe
}

// connected: the flood-fill covering documents "connected region".
func (s Spec) connected() bool {
	switch s.Kind {
	case "polygon":
		if strings.HasPrefix(s.Family, "lattice-shells=") {
			return s.Family == "lattice-shells=1" // one shell, possibly with a hole
		}
		return len(s.Rings) <= 2 || s.Full
	case "cellunion":
		return false
	}
	return true
}

func genFloodCase(t *rapid.T) floodCase {
	var s Spec
	for i := 0; ; i++ {
		s = genSpec(t)
		if s.connected() || i > 4 {
			break
		}
	}
	c := floodCase{R: s, Probes: genProbes(t, s, 16)}
	safe := safeMinLevel(s)
	if s.Kind != "polyline" && safe > 0 {
		safe-- // ~400 cells at most
	}
	c.Level = clampLevel(safe - rapid.IntRange(0, 6).Draw(t, "ff.lvl"))
	// start: a point of the region (a feature or probe the oracle puts inside), else any feature
	var cands []s2.Point
	for _, f := range s.Features() {
		cands = append(cands, f)
	}
	for _, p := range c.Probes {
		cands = append(cands, p.P.Pt())
	}
	if s.cellKind() {
		// cell regions intersect a cell only if the interiors overlap: start strictly inside
		cands = cands[:1]
	}
	k := rapid.IntRange(0, len(cands)).Draw(t, "ff.start")
	start := s2.PointFromCoords(1, 0, 0)
	found := false
	for i := 0; i < len(cands) && !found; i++ {
		p := cands[(k+i)%len(cands)]
		if s.Member(p) == mIn {
			start, found = p, true
		}
	}
	if !found && len(cands) > 0 {
		start = cands[k%len(cands)]
	}
	c.Start = gen.FromPt(start)
	return c
}
