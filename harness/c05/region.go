package c05

import (
	"math"
	"math/big"

	"github.com/golang/geo/r1"
	"github.com/golang/geo/r3"
	"github.com/golang/geo/s1"
	"github.com/golang/geo/s2"

	"verifharness/internal/exact"
	"verifharness/internal/gen"
)

// Spec is the plain-data form of a region.
type Spec struct {
	// Kind: cap | rect | cell | cellunion | loop | polygon | polyline | point
	Kind string
	// Family is a generator label for the class histogram.
	Family string
	// C: cap centre / the point of a point region.
	C gen.P
	// R2: cap radius as squared chord length (negative: empty, 4: full).
	R2 float64
	// Lat, Lng: rectangle bounds in radians (Lng[0] > Lng[1]: wraps the antimeridian).
	Lat, Lng [2]float64
	// Cells: the cell (one id) or the normalized cell union.
	Cells []uint64
	// Rings: the loop (one ring), the polygon rings, or the polyline (one chain).
	Rings [][]gen.P
	// Known is a point whose membership KnownIn is known from the construction
	// (loops and polygons); the exact parity oracle starts from it.
	Known   gen.P
	KnownIn bool
	// Full/Empty: the special full / empty loop or polygon.
	Full, Empty bool
	// Scale is the approximate angular radius of the region (sizing only).
	Scale float64
	// Hint is a cell the region was constructed against (0 if none): a good
	// target for the one-sided predicate check.
	Hint uint64
}

const (
	eps = 0x1p-52
	// delta is the angular safety margin (radians) for the regions whose
	// membership test and cell predicates are evaluated in floating point without
	// padding (caps, rectangles): a probe is only called "in" / "out" when it is
	// at least this far from the boundary. 45 eps; the library's own constants
	// for these paths are a few eps.
	delta = 1e-14
	// tolUV: a probe that is not definitely outside must be within this uv
	// distance of the covering.
	tolUV = 1e-13
)

// Membership verdicts. mNear: within the margin of the boundary (so some point
// of the region lies within ~2·delta of the probe); mUnknown: the oracle cannot
// tell (nothing is asserted).
const (
	mOut     = -1
	mUnknown = 0
	mIn      = 1
	mNear    = 2
)

func levelForScale(scale float64) int {
	if !(scale > 0) {
		return 30
	}
	l := int(math.Floor(-math.Log2(scale)))
	if l < 0 {
		l = 0
	}
	if l > 30 {
		l = 30
	}
	return l
}

// Region builds the library region; ok is false if the library's own
// validation rejects the generated geometry (counted as discarded).
func (s Spec) Region() (s2.Region, bool) {
	switch s.Kind {
	case "cap":
		return s2.CapFromCenterChordAngle(s.C.Pt(), s1.ChordAngle(s.R2)), true
	case "rect":
		return s.rect(), s.rect().IsValid()
	case "cell":
		return s2.CellFromCellID(s2.CellID(s.Cells[0])), s2.CellID(s.Cells[0]).IsValid()
	case "cellunion":
		cu := make(s2.CellUnion, len(s.Cells))
		for i, c := range s.Cells {
			cu[i] = s2.CellID(c)
		}
		return &cu, cu.IsNormalized()
	case "loop":
		if s.Full {
			return s2.FullLoop(), true
		}
		if s.Empty {
			return s2.EmptyLoop(), true
		}
		l := s2.LoopFromPoints(gen.Pts(s.Rings[0]))
		return l, l.Validate() == nil
	case "polygon":
		if s.Full {
			return s2.FullPolygon(), true
		}
		if s.Empty {
			return s2.PolygonFromLoops(nil), true
		}
		var ls []*s2.Loop
		for _, r := range s.Rings {
			ls = append(ls, s2.LoopFromPoints(gen.Pts(r)))
		}
		p := s2.PolygonFromLoops(ls)
		return p, p.Validate() == nil
	case "polyline":
		pl := s2.Polyline(gen.Pts(s.Rings[0]))
		return &pl, pl.Validate() == nil
	case "point":
		return s.C.Pt(), true
	}
	panic("c05: unknown kind " + s.Kind)
}

func (s Spec) rect() s2.Rect {
	return s2.Rect{Lat: r1.Interval{Lo: s.Lat[0], Hi: s.Lat[1]}, Lng: s1.IntervalFromEndpoints(s.Lng[0], s.Lng[1])}
}

// exactKind: regions whose point membership is an exact predicate in the
// library (so the oracle is exact too and no margin is involved).
func (s Spec) exactKind() bool {
	switch s.Kind {
	case "loop", "polygon", "point", "polyline":
		return true
	}
	return false
}

// cellKind: regions made of cells; their cell predicates are id arithmetic
// ("interiors overlap"), so only probes strictly inside a target cell count.
func (s Spec) cellKind() bool { return s.Kind == "cell" || s.Kind == "cellunion" }

func antipodalish(a, b s2.Point) bool { return a.Dot(b.Vector) < -0.98 }

// ---------------------------------------------------------------- cell geometry (own code)

// faceUV projects p on the given cube face (the published map, inverse of gen.FaceUVToXYZ).
func faceUV(face int, p r3.Vector) (u, v float64, ok bool) {
	switch face {
	case 0:
		if p.X <= 0 {
			return
		}
		return p.Y / p.X, p.Z / p.X, true
	case 1:
		if p.Y <= 0 {
			return
		}
		return -p.X / p.Y, p.Z / p.Y, true
	case 2:
		if p.Z <= 0 {
			return
		}
		return -p.X / p.Z, -p.Y / p.Z, true
	case 3:
		if p.X >= 0 {
			return
		}
		return p.Z / p.X, p.Y / p.X, true
	case 4:
		if p.Y >= 0 {
			return
		}
		return p.Z / p.Y, -p.X / p.Y, true
	default:
		if p.Z >= 0 {
			return
		}
		return -p.Y / p.Z, -p.X / p.Z, true
	}
}

// uvSlack returns how far (u,v) of p is inside the uv rectangle of the cell:
// min over the four sides of the signed distance to the side (negative = outside).
func uvSlack(c s2.Cell, p s2.Point) (float64, bool) {
	u, v, ok := faceUV(c.Face(), p.Vector)
	if !ok {
		return 0, false
	}
	b := c.BoundUV()
	s := math.Min(math.Min(u-b.X.Lo, b.X.Hi-u), math.Min(v-b.Y.Lo, b.Y.Hi-v))
	return s, true
}

// inCell: p lies in the closed uv rectangle of the cell grown by tol.
func inCell(c s2.Cell, p s2.Point, tol float64) bool {
	s, ok := uvSlack(c, p)
	return ok && s >= -tol
}

// cellPoint returns the point of the cell at fractional position (fu,fv) of its uv rectangle.
func cellPoint(c s2.Cell, fu, fv float64) s2.Point {
	b := c.BoundUV()
	u := b.X.Lo + fu*(b.X.Hi-b.X.Lo)
	v := b.Y.Lo + fv*(b.Y.Hi-b.Y.Lo)
	if fu >= 0 && fu <= 1 {
		u = math.Max(b.X.Lo, math.Min(b.X.Hi, u))
	}
	if fv >= 0 && fv <= 1 {
		v = math.Max(b.Y.Lo, math.Min(b.Y.Hi, v))
	}
	return s2.Point{Vector: gen.FaceUVToXYZ(c.Face(), u, v).Normalize()}
}

// clampToCell returns the point of the cell closest in uv space to p (ok=false
// if p is not on the cell's side of the sphere).
func clampToCell(c s2.Cell, p s2.Point) (s2.Point, bool) {
	u, v, ok := faceUV(c.Face(), p.Vector)
	if !ok {
		return p, false
	}
	b := c.BoundUV()
	u = math.Max(b.X.Lo, math.Min(b.X.Hi, u))
	v = math.Max(b.Y.Lo, math.Min(b.Y.Hi, v))
	return s2.Point{Vector: gen.FaceUVToXYZ(c.Face(), u, v).Normalize()}, true
}

// ---------------------------------------------------------------- membership oracle

func latLng(p s2.Point) (lat, lng float64) {
	return math.Atan2(p.Z, math.Sqrt(p.X*p.X+p.Y*p.Y)), math.Atan2(p.Y, p.X)
}

func fromLatLng(lat, lng float64) s2.Point {
	cl := math.Cos(lat)
	p := s2.Point{Vector: r3.Vector{X: cl * math.Cos(lng), Y: cl * math.Sin(lng), Z: math.Sin(lat)}}
	return gen.Fix(p, s2.Point{Vector: r3.Vector{X: 1}})
}

// capMember: chord² comparison with the margin  2·chord·δ + δ² + 16ε·r²
// (chord² moves by at most 2·sinθ·δ+δ² ≤ 2·chord·δ+δ² when the angle moves by δ).
func capMember(c s2.Point, r2 float64, p s2.Point) int {
	if r2 < 0 {
		return mOut
	}
	if r2 >= 4 {
		return mIn
	}
	d := c.Sub(p.Vector)
	d2 := d.Norm2()
	m := 2*math.Sqrt(r2)*delta + delta*delta + 16*eps*(r2+d2)
	switch {
	case d2+m <= r2:
		return mIn
	case d2 >= r2+m:
		return mOut
	}
	// Inside the band. "Near" promises that some point of the cap lies within
	// ~2·delta of the probe; that is only true where the band is geometrically
	// thin. Near the antipode of the centre (and for tiny caps) chord² is
	// insensitive to the angle - a band of m in chord² is m/(2·sinθ) radians wide,
	// 1e-7 rad for a cap whose chord² is within 1e-14 of 4 - so there the oracle
	// cannot tell and nothing is asserted.
	sinT := math.Sqrt(d2 * math.Max(0, 1-d2/4))
	if m > 2*sinT*tolUV {
		return mUnknown
	}
	return mNear
}

// intervalMember: x against [lo,hi] with margin m.
func intervalMember(x, lo, hi, m float64) int {
	switch {
	case x >= lo+m && x <= hi-m:
		return mIn
	case x <= lo-m || x >= hi+m:
		return mOut
	}
	return mNear
}

func rectMember(s Spec, p s2.Point) int {
	lat, lng := latLng(p)
	if s.Lat[0] > s.Lat[1] {
		return mOut // empty
	}
	a := intervalMember(lat, s.Lat[0], s.Lat[1], delta)
	// longitude: the margin is an angular distance on the sphere, so it is
	// divided by cos(lat); at the poles longitude carries no information.
	cl := math.Cos(lat)
	var b int
	lo, hi := s.Lng[0], s.Lng[1]
	full := lo == -math.Pi && hi == math.Pi
	switch {
	case full:
		b = mIn
	case cl < 1e-3:
		b = mUnknown
	default:
		m := delta + 2e-15/cl
		if lo <= hi {
			b = intervalMember(lng, lo, hi, m)
			// the two ends ±π are the same meridian
			if b == mOut && (math.Pi-math.Abs(lng) < m) && (math.Pi-math.Abs(lo) < m || math.Pi-math.Abs(hi) < m) {
				b = mNear
			}
		} else {
			// wraps: member iff lng >= lo or lng <= hi
			b1 := intervalMember(lng, lo, math.Pi+1, m)
			b2 := intervalMember(lng, -math.Pi-1, hi, m)
			switch {
			case b1 == mIn || b2 == mIn:
				b = mIn
			case b1 == mOut && b2 == mOut:
				b = mOut
			default:
				b = mNear
			}
		}
	}
	switch {
	case a == mOut || b == mOut:
		return mOut
	case a == mIn && b == mIn:
		return mIn
	case a == mUnknown || b == mUnknown:
		return mUnknown
	}
	return mNear
}

func cellMember(id s2.CellID, p s2.Point) int {
	s, ok := uvSlack(s2.CellFromCellID(id), p)
	switch {
	case !ok:
		return mOut
	case s >= 0:
		return mIn
	case s < -4*eps:
		return mOut
	}
	return mNear
}

func vecs(v []gen.P) []r3.Vector {
	out := make([]r3.Vector, len(v))
	for i, p := range v {
		out[i] = p.Pt().Vector
	}
	return out
}

// stableNormal is a normal of the plane through a and b computed as
// (a-b)x(a+b): relative error a few eps even for nearly parallel a, b (the
// naive a x b has relative error eps/sin(angle)).
func stableNormal(a, b s2.Point) r3.Vector {
	return a.Sub(b.Vector).Cross(a.Add(b.Vector))
}

// nearEdge reports whether p lies within k*eps (angle) of the edge ab. The
// distance to the great circle is decided exactly: det(a,b,p)^2 against
// (k*eps)^2 |a x b|^2 |p|^2 in integers; the position along the edge is
// decided in floating point with the stable normal (not critical: beyond the
// ends the distance to the end vertex is used).
func nearEdge(p, a, b s2.Point, k int64) bool {
	n := stableNormal(a, b)
	if n.Norm2() == 0 {
		return p.Sub(a.Vector).Norm() <= float64(k)*eps
	}
	if n.Cross(a.Vector).Dot(p.Vector) < 0 || b.Cross(n).Dot(p.Vector) < 0 {
		return math.Min(p.Sub(a.Vector).Norm(), p.Sub(b.Vector).Norm()) <= float64(k)*eps
	}
	v, _ := exact.IntVecs(a.Vector, b.Vector, p.Vector)
	det := exact.Det(v[0], v[1], v[2])
	lhs := new(big.Int).Mul(det, det)
	lhs.Lsh(lhs, 104)
	rhs := new(big.Int).Mul(exact.Norm2(exact.Cross(v[0], v[1])), exact.Norm2(v[2]))
	rhs.Mul(rhs, big.NewInt(k*k))
	return lhs.Cmp(rhs) <= 0
}

// Member classifies p against the region: mIn / mOut only when certain.
func (s Spec) Member(p s2.Point) int {
	switch s.Kind {
	case "cap":
		return capMember(s.C.Pt(), s.R2, p)
	case "rect":
		return rectMember(s, p)
	case "cell":
		return cellMember(s2.CellID(s.Cells[0]), p)
	case "cellunion":
		r := mOut
		for _, c := range s.Cells {
			switch cellMember(s2.CellID(c), p) {
			case mIn:
				return mIn
			case mNear:
				r = mNear
			}
		}
		return r
	case "loop", "polygon":
		if s.Full {
			return mIn
		}
		if s.Empty {
			return mOut
		}
		k := s.Known.Pt()
		if antipodalish(k, p) {
			return mUnknown
		}
		chains := make([][]r3.Vector, len(s.Rings))
		for i, r := range s.Rings {
			chains[i] = vecs(r)
		}
		if exact.ParityContains(chains, k.Vector, s.KnownIn, p.Vector) {
			return mIn
		}
		return mOut
	case "polyline":
		// the curve itself: vertices are members; a point within 4e-16 of an edge
		// is "on the curve up to construction rounding" (ambiguous); the library's
		// ContainsPoint is false everywhere by documentation.
		v := s.Rings[0]
		pp := gen.FromPt(p)
		for i := range v {
			if v[i] == pp {
				return mIn
			}
		}
		for i := 0; i+1 < len(v); i++ {
			if nearEdge(p, v[i].Pt(), v[i+1].Pt(), 4) {
				return mNear
			}
		}
		return mOut
	case "point":
		if s.C.Pt() == p {
			return mIn
		}
		return mOut
	}
	panic("c05: unknown kind")
}

// libComparable: whether the library's ContainsPoint is compared with the
// oracle at p whenever the oracle is certain. Polyline.ContainsPoint is false by
// documentation. CellUnion.ContainsPoint is defined through the leaf cell of p
// (every point belongs to exactly one leaf), so points on a cell boundary are
// compared only if they are strictly inside one member cell.
func (s Spec) libComparable(p s2.Point) bool {
	switch s.Kind {
	case "polyline":
		return false
	case "cellunion":
		for _, c := range s.Cells {
			if sl, ok := uvSlack(s2.CellFromCellID(s2.CellID(c)), p); ok && sl >= -4*eps && sl <= 4*eps {
				return false
			}
		}
	}
	return true
}

// Features returns deterministic points on the region's defining features
// (centre, boundary points, corners, vertices, edge midpoints).
func (s Spec) Features() []s2.Point {
	var out []s2.Point
	switch s.Kind {
	case "cap":
		c := s.C.Pt()
		out = append(out, c)
		if s.R2 >= 0 && s.R2 < 4 {
			th := 2 * math.Asin(math.Min(1, 0.5*math.Sqrt(s.R2)))
			x, y := frame(c)
			for k := 0; k < 8; k++ {
				az := float64(k) * math.Pi / 4
				for _, f := range []float64{1 - 1e-9, 1} {
					r := th*f - 4*delta
					if r > 0 {
						out = append(out, at(c, x, y, r, az))
					}
				}
			}
		}
	case "rect":
		if s.Lat[0] > s.Lat[1] {
			return nil
		}
		ln := s.Lng[1] - s.Lng[0]
		if ln < 0 {
			ln += 2 * math.Pi
		}
		for _, fa := range []float64{0, 0.5, 1} {
			for _, fb := range []float64{0, 0.25, 0.5, 0.75, 1} {
				lat := s.Lat[0] + fa*(s.Lat[1]-s.Lat[0])
				lng := math.Remainder(s.Lng[0]+fb*ln, 2*math.Pi)
				out = append(out, fromLatLng(lat, lng))
			}
		}
	case "cell", "cellunion":
		for i, c := range s.Cells {
			if i >= 12 {
				break
			}
			cell := s2.CellFromCellID(s2.CellID(c))
			out = append(out, cellPoint(cell, 0.5, 0.5))
			for k := 0; k < 4; k++ {
				out = append(out, cell.Vertex(k))
			}
		}
	case "loop", "polygon", "polyline":
		cnt := 0
		for _, r := range s.Rings {
			for i := range r {
				if cnt >= 96 {
					break
				}
				cnt++
				out = append(out, r[i].Pt())
				j := i + 1
				if j == len(r) {
					if s.Kind == "polyline" {
						continue
					}
					j = 0
				}
				a, b := r[i].Pt(), r[j].Pt()
				m := s2.Point{Vector: a.Add(b.Vector).Normalize()}
				if gen.Unit(m) {
					out = append(out, m)
				}
			}
		}
		if s.Kind != "polyline" && !s.Full && !s.Empty {
			out = append(out, s.Known.Pt())
		}
	case "point":
		out = append(out, s.C.Pt())
	}
	return out
}

// NearestIn returns candidate points of the region close to the target q
// (pulled inside by the margin where the region has one).
func (s Spec) NearestIn(q s2.Point) []s2.Point {
	var out []s2.Point
	switch s.Kind {
	case "cap":
		if s.R2 < 0 || s.R2 >= 4 {
			return nil
		}
		c := s.C.Pt()
		th := 2 * math.Asin(math.Min(1, 0.5*math.Sqrt(s.R2)))
		d := float64(c.Distance(q))
		if d <= th || d == 0 || d >= math.Pi-1e-9 {
			return nil
		}
		for _, pull := range []float64{3 * delta, th * 1e-6, th * 1e-2} {
			r := th - pull
			if r > 0 {
				p := s2.InterpolateAtDistance(s1.Angle(r), c, q)
				out = append(out, gen.Fix(p, c))
			}
		}
	case "rect":
		if s.Lat[0] > s.Lat[1] {
			return nil
		}
		lat, lng := latLng(q)
		r := s.rect()
		for _, pull := range []float64{3 * delta, 1e-9} {
			la := clampIn(lat, s.Lat[0], s.Lat[1], pull)
			ln := lng
			if !r.Lng.IsFull() && !r.Lng.InteriorContains(lng) {
				// nearer end
				dlo := math.Abs(math.Remainder(lng-s.Lng[0], 2*math.Pi))
				dhi := math.Abs(math.Remainder(lng-s.Lng[1], 2*math.Pi))
				length := r.Lng.Length()
				pl := math.Min(pull/math.Max(1e-3, math.Cos(la)), length/2)
				if dlo < dhi {
					ln = math.Remainder(s.Lng[0]+pl, 2*math.Pi)
				} else {
					ln = math.Remainder(s.Lng[1]-pl, 2*math.Pi)
				}
			}
			out = append(out, fromLatLng(la, ln))
		}
	case "cell", "cellunion":
		for i, c := range s.Cells {
			if i >= 8 {
				break
			}
			if p, ok := clampToCell(s2.CellFromCellID(s2.CellID(c)), q); ok {
				out = append(out, p)
			}
		}
	case "loop", "polygon", "polyline":
		// nearest vertex and the projection on the nearest edges
		type cand struct {
			d float64
			p s2.Point
		}
		best := []cand{}
		add := func(p s2.Point) {
			d := p.Sub(q.Vector).Norm2()
			best = append(best, cand{d, p})
		}
		for _, r := range s.Rings {
			for i := range r {
				a := r[i].Pt()
				add(a)
				j := i + 1
				if j == len(r) {
					if s.Kind == "polyline" {
						continue
					}
					j = 0
				}
				b := r[j].Pt()
				n := stableNormal(a, b)
				if n.Norm2() == 0 {
					continue
				}
				// projection of q on the great circle, kept if between a and b
				pr := q.Sub(n.Mul(q.Dot(n) / n.Norm2()))
				if pr.Norm2() == 0 {
					continue
				}
				pp := s2.Point{Vector: pr.Normalize()}
				if n.Cross(a.Vector).Dot(pp.Vector) > 0 && b.Cross(n).Dot(pp.Vector) > 0 && gen.Unit(pp) {
					add(pp)
				}
			}
		}
		// keep the 3 closest
		for k := 0; k < 3 && len(best) > 0; k++ {
			bi := 0
			for i := range best {
				if best[i].d < best[bi].d {
					bi = i
				}
			}
			out = append(out, best[bi].p)
			best = append(best[:bi], best[bi+1:]...)
		}
	case "point":
		out = append(out, s.C.Pt())
	}
	return out
}

func clampIn(x, lo, hi, pull float64) float64 {
	if hi-lo < 2*pull {
		return 0.5 * (lo + hi)
	}
	return math.Max(lo+pull, math.Min(hi-pull, x))
}

// frame returns an orthonormal frame (x, y) perpendicular to c.
func frame(c s2.Point) (x, y r3.Vector) {
	x = c.Ortho()
	y = c.Cross(x).Normalize()
	return x, y
}

// at returns the point at angular distance r from c in direction az.
func at(c s2.Point, x, y r3.Vector, r, az float64) s2.Point {
	d := x.Mul(math.Cos(az)).Add(y.Mul(math.Sin(az)))
	p := s2.Point{Vector: c.Mul(math.Cos(r)).Add(d.Mul(math.Sin(r))).Normalize()}
	return gen.Fix(p, c)
}
