// Package c05: coverings cover, interior coverings are contained, level limits
// are honoured, and the region/cell predicates are one-sidedly safe.
package c05

import (
	"fmt"
	"runtime/debug"

	"github.com/golang/geo/s2"

	"verifharness/internal/ev"
)

func leafID(p s2.Point) s2.CellID { return s2.CellFromPoint(p).ID() }

// catch turns a panic inside the code under test into a failing outcome with a
// narrow finding class computed from the region.
func catch(o *ev.Outcome, s Spec) {
	if r := recover(); r != nil {
		st := string(debug.Stack())
		if len(st) > 2500 {
			st = st[:2500]
		}
		o.Err = fmt.Sprintf("panic on region %s/%s: %v\n%s", s.Kind, s.Family, r, st)
		o.Finding = "panic-" + s.Kind + "-" + s.Family
		o.NonTrivial = true
		o.Skip = false
	}
}

// covered reports how p is covered by the cells: 2 = the leaf cell of p lies in
// the id range of a cell, 1 = p lies in the closed uv rectangle of a cell grown
// by tol (cells are closed sets; a point on a shared edge belongs to both
// neighbours), 0 = not covered.
func covered(cov []s2.CellID, p s2.Point, tol float64) int {
	leaf := leafID(p)
	for _, id := range cov {
		if id.RangeMin() <= leaf && leaf <= id.RangeMax() {
			return 2
		}
	}
	for _, id := range cov {
		if id.IsValid() && inCell(s2.CellFromCellID(id), p, tol) {
			return 1
		}
	}
	return 0
}

func facesOf(cov []s2.CellID) int {
	var seen [6]bool
	n := 0
	for _, id := range cov {
		if f := id.Face(); f >= 0 && f < 6 && !seen[f] {
			seen[f] = true
			n++
		}
	}
	return n
}

func clampCfg(c Config) (min, max, mod int) {
	return clampLevel(c.Min), clampLevel(c.Max), c.mod()
}

// levelRules checks validity, order, disjointness and the level arithmetic.
func levelRules(cov []s2.CellID, cfg Config) string {
	min, max, mod := clampCfg(cfg)
	for i, id := range cov {
		if !id.IsValid() {
			return fmt.Sprintf("cell %d (%#x) is not a valid id", i, uint64(id))
		}
		l := id.Level()
		if l < min {
			return fmt.Sprintf("cell %d %v has level %d < MinLevel %d", i, id, l, min)
		}
		if l > max {
			return fmt.Sprintf("cell %d %v has level %d > MaxLevel %d", i, id, l, max)
		}
		if (l-min)%mod != 0 {
			return fmt.Sprintf("cell %d %v has level %d, (level-MinLevel=%d) is not a multiple of LevelMod %d", i, id, l, l-min, mod)
		}
		if i > 0 && cov[i-1].RangeMax() >= id.RangeMin() {
			return fmt.Sprintf("cells %d,%d (%v,%v) are not sorted and disjoint", i-1, i, cov[i-1], id)
		}
	}
	return ""
}

// maxCellsRule: documented reasons for exceeding MaxCells are a too-high
// MinLevel and distinct faces; so when there are more than MaxCells cells no two
// of them may share an ancestor at MinLevel (otherwise the count could have been
// reduced within the constraints).
func maxCellsRule(cov []s2.CellID, cfg Config) string {
	if len(cov) <= cfg.Cells {
		return ""
	}
	min, _, _ := clampCfg(cfg)
	seen := map[s2.CellID]s2.CellID{}
	for _, id := range cov {
		if !id.IsValid() || id.Level() < min {
			continue
		}
		a := id.Parent(min)
		if o, ok := seen[a]; ok {
			return fmt.Sprintf("%d cells > MaxCells %d although %v and %v share the MinLevel-%d ancestor %v", len(cov), cfg.Cells, o, id, min, a)
		}
		seen[a] = id
	}
	return ""
}

type tally struct {
	in, out, near, nearIn, lenient, fuzz, gaps, gapIn int
}

// gapCells returns cells next to the covering that the covering does not
// touch: the edge neighbours (at the cell's own level) of up to 5 evenly spaced
// covering cells, at most ~14 of them.
func gapCells(cov []s2.CellID) []s2.CellID {
	if len(cov) == 0 {
		return nil
	}
	step := (len(cov) + 4) / 5
	seen := map[s2.CellID]bool{}
	var out []s2.CellID
	for i := 0; i < len(cov) && len(out) < 14; i += step {
		if !cov[i].IsValid() {
			continue
		}
		for _, g := range cov[i].EdgeNeighbors() {
			if seen[g] {
				continue
			}
			seen[g] = true
			touches := false
			for _, c := range cov {
				if c.RangeMin() <= g.RangeMax() && g.RangeMin() <= c.RangeMax() {
					touches = true
					break
				}
			}
			if !touches {
				out = append(out, g)
			}
		}
	}
	return out
}

// judgeMembership checks every probe: oracle vs library ContainsPoint, and
// membership of the region's points in each of the named coverings.
func judgeMembership(o *ev.Outcome, spec Spec, region s2.Region, probes []Probe, covs map[string][]s2.CellID, order []string) (tally, bool) {
	var tl tally
	pts := probes
	for _, f := range spec.Features() {
		pts = append(pts, Probe{P: [3]float64{f.X, f.Y, f.Z}, Near: true})
	}
	for i, pr := range pts {
		p := pr.P.Pt()
		m := spec.Member(p)
		if spec.libComparable(p) && (m == mIn || m == mOut) {
			if lib := region.ContainsPoint(p); lib != (m == mIn) {
				o.Err = fmt.Sprintf("probe %d %v: %s.ContainsPoint=%v but the oracle is certain of %v", i, p, spec.Kind, lib, m == mIn)
				o.Finding = "containspoint-" + spec.Kind
				return tl, false
			}
		}
		switch m {
		case mIn:
			tl.in++
			if pr.Near {
				tl.nearIn++
			}
		case mOut:
			tl.out++
		case mNear:
			tl.near++
		}
		if m != mIn && m != mNear {
			continue
		}
		tol := 4 * eps
		if m == mNear {
			tol = tolUV
		}
		for _, name := range order {
			cv := covered(covs[name], p, tol)
			if cv == 0 {
				what := "a point of the region"
				if m == mNear {
					what = fmt.Sprintf("(within uv tolerance %.0e) a point within the %.0e margin of the region", tolUV, delta)
				}
				o.Err = fmt.Sprintf("%s (%d cells) does not contain %s: probe %d %v (leaf %v), region %s/%s", name, len(covs[name]), what, i, p, leafID(p), spec.Kind, spec.Family)
				o.Finding = fmt.Sprintf("uncovered-%s-%s", name, spec.Kind)
				if rectEdgeLngDefectAt(spec, p) {
					o.Finding = findingRectEdgeLng
				}
				return tl, false
			}
			if cv == 1 {
				tl.lenient++
			}
			if m == mNear && spec.libComparable(p) && cv == 1 && region.ContainsPoint(p) && covered(covs[name], p, 4*eps) == 0 {
				tl.fuzz++
			}
		}
	}
	// gap-directed probes: points of cells just outside the covering that the
	// oracle (not the library) puts in the region
	feats := spec.Features()
	if len(feats) > 16 {
		feats = feats[:16]
	}
	for _, name := range order {
		for _, g := range gapCells(covs[name]) {
			tl.gaps++
			cell := s2.CellFromCellID(g)
			for _, p := range directedPoints(spec, cell, feats) {
				m := spec.Member(p)
				if m != mIn && m != mNear {
					continue
				}
				tol := 4 * eps
				if m == mNear {
					tol = tolUV
				} else {
					tl.gapIn++
				}
				if covered(covs[name], p, tol) == 0 {
					o.Err = fmt.Sprintf("%s (%d cells) does not contain the region point %v (verdict %d) found in the uncovered neighbouring cell %v (level %d), region %s/%s", name, len(covs[name]), p, m, g, g.Level(), spec.Kind, spec.Family)
					o.Finding = fmt.Sprintf("uncovered-%s-%s", name, spec.Kind)
					if rectEdgeLngDefectAt(spec, p) {
						o.Finding = findingRectEdgeLng
					}
					return tl, false
				}
			}
		}
	}
	return tl, true
}

func ids(cu s2.CellUnion) []s2.CellID { return []s2.CellID(cu) }

func cfgClass(c Config) string {
	rel := "min<max"
	if c.Min == c.Max {
		rel = "min=max"
	}
	cells := "<=4"
	switch {
	case c.Cells >= 10000:
		cells = "1e4"
	case c.Cells >= 100:
		cells = "100"
	case c.Cells > 4:
		cells = "8-20"
	}
	return fmt.Sprintf("mod=%d/%s/cells%s", c.Mod, rel, cells)
}

// ---------------------------------------------------------------- covering: points

func checkCoveringContains(c covCase) (o ev.Outcome) {
	defer catch(&o, c.R)
	region, ok := c.R.Region()
	if !ok {
		o.Skip = true
		return o
	}
	rc := c.Cfg.coverer()
	covs := map[string][]s2.CellID{
		"Covering":  ids(rc.Covering(region)),
		"CellUnion": ids(rc.CellUnion(region)),
	}
	o.Class = c.R.Kind + "/" + c.R.Family
	tl, ok := judgeMembership(&o, c.R, region, c.Probes, covs, []string{"Covering", "CellUnion"})
	if !ok {
		o.NonTrivial = true
		return o
	}
	cov := covs["Covering"]
	o.NonTrivial = len(cov) >= 2 && tl.in+tl.near >= 1 && (facesOf(cov) >= 2 || tl.nearIn+tl.near >= 1)
	o.Counts = map[string]int{"probes_in": tl.in, "probes_out": tl.out, "probes_near_boundary": tl.near,
		"covered_only_as_closed_cell": tl.lenient, "lib_member_near_boundary_outside_strict_covering": tl.fuzz, "cells": len(cov),
		"gap_cells_probed": tl.gaps, "gap_points_in_region_but_covered_elsewhere": tl.gapIn}
	return o
}

// ---------------------------------------------------------------- covering: level rules

func checkCoveringLevels(c covCase) (o ev.Outcome) {
	defer catch(&o, c.R)
	region, ok := c.R.Region()
	if !ok {
		o.Skip = true
		return o
	}
	rc := c.Cfg.coverer()
	cov := ids(rc.Covering(region))
	cu := rc.CellUnion(region)
	o.Class = cfgClass(c.Cfg)
	min, max, mod := clampCfg(c.Cfg)
	o.NonTrivial = len(cov) >= 2 && (min > 0 || max < 30 || mod > 1)
	o.Counts = map[string]int{"cells": len(cov)}
	if rc.IsCanonical(cov) {
		o.Counts["is_canonical"] = 1
	}
	if msg := levelRules(cov, c.Cfg); msg != "" {
		o.Err = "Covering: " + msg + fmt.Sprintf(" (config %+v, region %s/%s)", c.Cfg, c.R.Kind, c.R.Family)
		o.Finding = "covering-levels"
		return o
	}
	if msg := maxCellsRule(cov, c.Cfg); msg != "" {
		o.Err = "Covering: " + msg + fmt.Sprintf(" (config %+v, region %s/%s)", c.Cfg, c.R.Kind, c.R.Family)
		o.Finding = "covering-maxcells"
		return o
	}
	// CellUnion: normalized, no cell finer than MaxLevel, same point set as Covering.
	if !cu.IsNormalized() {
		o.Err = fmt.Sprintf("CellUnion result is not normalized (config %+v)", c.Cfg)
		o.Finding = "cellunion-not-normalized"
		return o
	}
	for _, id := range cu {
		if id.Level() > max {
			o.Err = fmt.Sprintf("CellUnion cell %v has level %d > MaxLevel %d", id, id.Level(), max)
			o.Finding = "cellunion-levels"
			return o
		}
	}
	// same set: every Covering cell inside a CellUnion cell and leaf counts equal
	var leavesCov, leavesCU uint64
	for _, id := range cov {
		leavesCov += uint64(1) << uint(2*(30-id.Level()))
		found := false
		for _, u := range cu {
			if u.RangeMin() <= id.RangeMin() && id.RangeMax() <= u.RangeMax() {
				found = true
				break
			}
		}
		if !found {
			o.Err = fmt.Sprintf("Covering cell %v is not inside any CellUnion cell (config %+v)", id, c.Cfg)
			o.Finding = "covering-vs-cellunion"
			return o
		}
	}
	for _, u := range cu {
		leavesCU += uint64(1) << uint(2*(30-u.Level()))
	}
	if leavesCov != leavesCU {
		o.Err = fmt.Sprintf("Covering and CellUnion cover different leaf counts %d vs %d (config %+v)", leavesCov, leavesCU, c.Cfg)
		o.Finding = "covering-vs-cellunion"
		return o
	}
	return o
}

// ---------------------------------------------------------------- fast covering

func checkFastContains(c covCase) (o ev.Outcome) {
	defer catch(&o, c.R)
	region, ok := c.R.Region()
	if !ok {
		o.Skip = true
		return o
	}
	rc := c.Cfg.coverer()
	covs := map[string][]s2.CellID{
		"FastCovering":   ids(rc.FastCovering(region)),
		"CellUnionBound": region.CellUnionBound(),
	}
	o.Class = c.R.Kind + "/" + c.R.Family
	tl, ok := judgeMembership(&o, c.R, region, c.Probes, covs, []string{"CellUnionBound", "FastCovering"})
	if !ok {
		o.NonTrivial = true
		return o
	}
	cov := covs["FastCovering"]
	o.NonTrivial = len(cov) >= 2 && tl.in+tl.near >= 1 && (facesOf(cov) >= 2 || tl.nearIn+tl.near >= 1)
	o.Counts = map[string]int{"probes_in": tl.in, "probes_near_boundary": tl.near, "cells": len(cov)}
	return o
}

func checkFastLevels(c covCase) (o ev.Outcome) {
	defer catch(&o, c.R)
	region, ok := c.R.Region()
	if !ok {
		o.Skip = true
		return o
	}
	rc := c.Cfg.coverer()
	cov := ids(rc.FastCovering(region))
	o.Class = cfgClass(c.Cfg)
	min, max, mod := clampCfg(c.Cfg)
	o.NonTrivial = len(cov) >= 2 && (min > 0 || max < 30 || mod > 1)
	o.Counts = map[string]int{"cells": len(cov)}
	if len(cov) > c.Cfg.Cells {
		o.Counts["more_than_maxcells"] = 1
	}
	if msg := levelRules(cov, c.Cfg); msg != "" {
		o.Err = "FastCovering: " + msg + fmt.Sprintf(" (config %+v, region %s/%s, CellUnionBound %v)", c.Cfg, c.R.Kind, c.R.Family, region.CellUnionBound())
		o.Finding = "fastcovering-levels"
		return o
	}
	return o
}

// ---------------------------------------------------------------- interior covering

// cellProbes returns points of the cell: a 3x3 grid of its uv rectangle, its
// four Vertex(k) and its centre.
func cellGrid(cell s2.Cell, fs []float64) []s2.Point {
	var out []s2.Point
	for _, fu := range fs {
		for _, fv := range fs {
			out = append(out, cellPoint(cell, fu, fv))
		}
	}
	return out
}

func checkInterior(c covCase) (o ev.Outcome) {
	defer catch(&o, c.R)
	region, ok := c.R.Region()
	if !ok {
		o.Skip = true
		return o
	}
	rc := c.Cfg.coverer()
	cov := ids(rc.InteriorCovering(region))
	cu := rc.InteriorCellUnion(region)
	o.Class = c.R.Kind + "/" + c.R.Family
	o.NonTrivial = len(cov) >= 1
	o.Counts = map[string]int{"cells": len(cov)}
	if len(cov) == 0 {
		o.Counts["empty_result"] = 1
	}
	_, max, _ := clampCfg(c.Cfg)
	// containment of every returned cell (sampled evenly above 200 cells)
	check := func(name string, list []s2.CellID) bool {
		step := 1
		if len(list) > 200 {
			step = len(list)/200 + 1
		}
		for i := 0; i < len(list); i += step {
			id := list[i]
			if !id.IsValid() {
				o.Err = fmt.Sprintf("%s: invalid cell id %#x", name, uint64(id))
				o.Finding = "interior-levels"
				return false
			}
			cell := s2.CellFromCellID(id)
			pts := cellGrid(cell, []float64{0, 0.5, 1})
			for k := 0; k < 4; k++ {
				pts = append(pts, cell.Vertex(k))
			}
			pts = append(pts, cell.Center())
			for j, p := range pts {
				m := c.R.Member(p)
				if m == mOut {
					o.Err = fmt.Sprintf("%s cell %v (level %d) has point %d %v outside the region %s/%s (config %+v)", name, id, id.Level(), j, p, c.R.Kind, c.R.Family, c.Cfg)
					o.Finding = "interior-not-contained-" + c.R.Kind
					return false
				}
				if m == mIn {
					o.Counts["cell_points_in"]++
				}
			}
		}
		return true
	}
	if !check("InteriorCovering", cov) || !check("InteriorCellUnion", ids(cu)) {
		return o
	}
	if msg := levelRules(cov, c.Cfg); msg != "" {
		o.Err = "InteriorCovering: " + msg + fmt.Sprintf(" (config %+v, region %s/%s)", c.Cfg, c.R.Kind, c.R.Family)
		o.Finding = "interior-levels"
		return o
	}
	if msg := maxCellsRule(cov, c.Cfg); msg != "" {
		o.Err = "InteriorCovering: " + msg + fmt.Sprintf(" (config %+v, region %s/%s)", c.Cfg, c.R.Kind, c.R.Family)
		o.Finding = "interior-maxcells"
		return o
	}
	if !cu.IsNormalized() {
		o.Err = "InteriorCellUnion result is not normalized"
		o.Finding = "interior-levels"
		return o
	}
	for _, id := range cu {
		if id.Level() > max {
			o.Err = fmt.Sprintf("InteriorCellUnion cell %v has level %d > MaxLevel %d", id, id.Level(), max)
			o.Finding = "interior-levels"
			return o
		}
	}
	// the exterior covering with the same configuration must contain the interior one
	ext := ids(rc.Covering(region))
	for _, id := range cov {
		inside := false
		for _, e := range ext {
			if e.RangeMin() <= id.RangeMin() && id.RangeMax() <= e.RangeMax() {
				inside = true
				break
			}
		}
		if !inside {
			// a finer exterior covering may split it; then all of it must still be covered
			var leaves uint64
			for _, e := range ext {
				if id.RangeMin() <= e.RangeMin() && e.RangeMax() <= id.RangeMax() {
					leaves += uint64(1) << uint(2*(30-e.Level()))
				}
			}
			if leaves != uint64(1)<<uint(2*(30-id.Level())) {
				o.Err = fmt.Sprintf("interior cell %v is not covered by Covering with the same configuration %+v (region %s/%s)", id, c.Cfg, c.R.Kind, c.R.Family)
				o.Finding = "interior-not-in-exterior"
				return o
			}
		}
	}
	return o
}

// ---------------------------------------------------------------- one-sided predicates

type cellPt struct {
	p        s2.Point
	interior bool // inside the uv rectangle by at least 2% of its size
	slack    float64
	src      string
}

func checkPredicates(c predCase) (o ev.Outcome) {
	defer catch(&o, c.R)
	region, ok := c.R.Region()
	id := s2.CellID(c.Cell)
	if !ok || !id.IsValid() {
		o.Skip = true
		return o
	}
	cell := s2.CellFromCellID(id)
	contains := region.ContainsCell(cell)
	inter := region.IntersectsCell(cell)
	switch {
	case contains:
		o.Class = c.R.Kind + "/contains"
	case inter:
		o.Class = c.R.Kind + "/intersects-only"
	default:
		o.Class = c.R.Kind + "/disjoint"
	}
	if contains && !inter {
		o.Err = fmt.Sprintf("%s/%s: ContainsCell(%v) is true but IntersectsCell is false", c.R.Kind, c.R.Family, id)
		o.Finding = "contains-not-intersects-" + c.R.Kind
		o.NonTrivial = true
		return o
	}
	b := cell.BoundUV()
	size := b.X.Hi - b.X.Lo
	var pts []cellPt
	grid := []float64{0, 0.02, 0.5, 0.98, 1}
	for _, fu := range grid {
		for _, fv := range grid {
			in := fu >= 0.02 && fu <= 0.98 && fv >= 0.02 && fv <= 0.98
			pts = append(pts, cellPt{p: cellPoint(cell, fu, fv), interior: in, src: "grid"})
		}
	}
	for _, f := range c.F {
		fu, fv := 0.02+0.96*f[0], 0.02+0.96*f[1]
		pts = append(pts, cellPt{p: cellPoint(cell, fu, fv), interior: true, src: "random"})
	}
	for k := 0; k < 4; k++ {
		pts = append(pts, cellPt{p: cell.Vertex(k), src: "vertex"})
	}
	pts = append(pts, cellPt{p: cell.Center(), interior: true, src: "centre"})
	// directed: region features / probes that fall in the cell, and their uv clamp onto the cell
	var feats []s2.Point
	for _, pr := range c.Probes {
		feats = append(feats, pr.P.Pt())
	}
	fs := c.R.Features()
	if len(fs) > 60 {
		fs = fs[:60]
	}
	feats = append(feats, fs...)
	for _, f := range directedPoints(c.R, cell, feats) {
		if sl, ok := uvSlack(cell, f); ok && sl >= -4*eps {
			pts = append(pts, cellPt{p: f, interior: sl >= 0.02*size, src: "directed"})
		}
	}
	nIn, nOut, nNear := 0, 0, 0
	for i := range pts {
		if s, ok := uvSlack(cell, pts[i].p); ok {
			pts[i].slack = s
		} else {
			pts[i].slack = -1
		}
		p := pts[i].p
		m := c.R.Member(p)
		switch m {
		case mIn:
			nIn++
		case mOut:
			nOut++
		case mNear:
			nNear++
		}
		if contains && m == mOut {
			o.Err = fmt.Sprintf("%s/%s: ContainsCell(%v, level %d) is true but cell point %v (%s) is outside the region", c.R.Kind, c.R.Family, id, id.Level(), p, pts[i].src)
			o.Finding = "containscell-" + c.R.Kind
			o.NonTrivial = true
			return o
		}
		if !inter {
			bad := false
			switch {
			case m == mIn && c.R.cellKind():
				bad = pts[i].interior
			case m == mIn:
				bad = true
			case m == mNear && c.R.Kind == "polyline":
				// the curve passes within 4 eps of a point that is inside the cell by far more
				bad = pts[i].slack >= tolUV
			}
			if bad {
				o.Err = fmt.Sprintf("%s/%s: IntersectsCell(%v, level %d) is false but cell point %v (%s, uv slack %.3g) is in the region", c.R.Kind, c.R.Family, id, id.Level(), p, pts[i].src, pts[i].slack)
				o.Finding = "intersectscell-" + c.R.Kind
				if rectEdgeLngDefect(c.R, cell) {
					o.Finding = findingRectEdgeLng
				}
				o.NonTrivial = true
				return o
			}
		}
	}
	o.NonTrivial = (inter && !contains) || (nIn > 0 && nOut > 0) || nNear > 0
	o.Counts = map[string]int{"cell_points_in": nIn, "cell_points_out": nOut, "cell_points_near_boundary": nNear}
	// configurations that only the edge-interior logic decides
	cornersIn, cornersOut := 0, 0
	for _, p := range []s2.Point{cell.Center(), cell.Vertex(0), cell.Vertex(1), cell.Vertex(2), cell.Vertex(3)} {
		switch c.R.Member(p) {
		case mIn:
			cornersIn++
		case mOut:
			cornersOut++
		}
	}
	if cornersIn == 0 && nIn > 0 {
		o.Counts["sliver:"+c.R.Kind]++ // region enters the cell, no vertex/centre in it
	}
	if cornersOut == 0 && cornersIn == 5 && nOut > 0 {
		o.Counts["notch:"+c.R.Kind]++ // all vertices and the centre in the region, yet part of the cell is outside
	}
	return o
}

// ---------------------------------------------------------------- flood fill covering

func checkFloodFill(c floodCase) (o ev.Outcome) {
	defer catch(&o, c.R)
	region, ok := c.R.Region()
	if !ok || !c.R.connected() {
		o.Skip = true
		return o
	}
	start := c.Start.Pt()
	startIn := c.R.Member(start) == mIn
	if c.R.cellKind() && startIn {
		// cell regions meet a cell only if the interiors overlap
		sl, ok := uvSlack(s2.CellFromCellID(s2.CellID(c.R.Cells[0])), start)
		startIn = ok && sl > 4*eps
	}
	cov := s2.SimpleRegionCovering(region, start, c.Level)
	o.Class = fmt.Sprintf("%s/start-in=%v", c.R.Kind, startIn)
	o.Counts = map[string]int{"cells": len(cov)}
	seen := map[s2.CellID]bool{}
	for _, id := range cov {
		if !id.IsValid() || id.Level() != c.Level {
			o.Err = fmt.Sprintf("SimpleRegionCovering(level %d) returned cell %v of level %d", c.Level, id, id.Level())
			o.Finding = "floodfill-level"
			return o
		}
		if seen[id] {
			o.Err = fmt.Sprintf("SimpleRegionCovering returned cell %v twice", id)
			o.Finding = "floodfill-duplicate"
			return o
		}
		seen[id] = true
	}
	if !startIn {
		// the documentation requires the start point to be in (or on the boundary of) the region
		o.NonTrivial = false
		return o
	}
	covs := map[string][]s2.CellID{"SimpleRegionCovering": cov}
	tl, ok := judgeMembership(&o, c.R, region, c.Probes, covs, []string{"SimpleRegionCovering"})
	if !ok {
		o.NonTrivial = true
		return o
	}
	o.NonTrivial = len(cov) >= 2 && tl.in >= 1
	o.Counts["probes_in"] = tl.in
	return o
}

func init() {
	regions := "regions: caps (point, 1e-7..pi, hemisphere +-ulps, near-full, full, empty, tangent to a cell vertex/edge +-40 ulps; centres random/poles/face centres/cube corners/antimeridian/cell-derived), lat-lng rectangles (boxes 1e-7..pi, polar caps, polar wedges, antimeridian-wrapping, bands, full, point, meridian and parallel segments, wider than 180 deg), cells (all levels, path-biased), normalized cell unions (children, neighbours, sibling triples, deep descendants, far cells), loops (regular, star, lattice rectangles, cells; 1/4 inverted; full; empty), polygons (1-4 concentric rings; full; empty), polylines (1..40 vertices, length 1e-7..12 rad), points"
	cfgs := "configurations: MinLevel<=MaxLevel in 0..30 (MinLevel capped so that the MinLevel cells meeting the region stay below ~1500), LevelMod 0..3, MaxCells in {0,1,2,3,4,8,20,100,1e4}, bias to min=0, min=max, max=30"
	oracle := "membership oracle: exact crossing parity from a construction-known point (loops, polygons), chord^2 / lat-lng comparison with a 1e-14 rad margin (caps, rectangles), own uv projection (cells, cell unions), vertex identity and 4-eps edge distance (polylines), identity (points); the library's ContainsPoint must agree wherever the oracle is certain"
	ev.Define("covering_contains_region", ev.Options{
		Rule:  regions + "; " + cfgs + "; " + oracle + ". ~20 generated probes (inside, on and next to the boundary at 0..1e-8 rad, outside) plus the region's feature points (centre, boundary points, corners, vertices, edge midpoints): every probe certainly in the region must lie in Covering and CellUnion (leaf id in a cell's range, or in a cell's closed uv rectangle grown by 4 eps); every probe within the margin of the boundary must be within 1e-13 (uv) of them. Non-trivial = covering has >= 2 cells, at least one probe in/near the region, and the covering meets >= 2 faces or a probe next to the boundary is in the region.",
		Quick: 9000, Thorough: 250000}, genCovCase, checkCoveringContains)
	ev.Define("covering_level_rules", ev.Options{
		Rule:  regions + "; " + cfgs + ". Covering: valid ids, sorted, disjoint, MinLevel <= level <= MaxLevel, (level-MinLevel) mod LevelMod == 0; more than MaxCells cells only if no two share a MinLevel ancestor; CellUnion: normalized, no level > MaxLevel, same leaf set as Covering. Non-trivial = >= 2 cells and a non-default level constraint.",
		Quick: 12000, Thorough: 300000}, genCovCase, checkCoveringLevels)
	ev.Define("fast_covering_contains_region", ev.Options{
		Rule:  regions + "; " + cfgs + "; " + oracle + ". Same probe rule as covering_contains_region for FastCovering and for the raw CellUnionBound. Non-trivial as there.",
		Quick: 12000, Thorough: 400000}, genFastCase, checkFastContains)
	ev.Define("fast_covering_level_rules", ev.Options{
		Rule:  regions + "; " + cfgs + ". FastCovering documents that MinLevel, MaxLevel and LevelMod are respected: valid ids, sorted, disjoint, level arithmetic. Non-trivial = >= 2 cells and a non-default level constraint.",
		Quick: 16000, Thorough: 500000}, genFastCase, checkFastLevels)
	ev.Define("interior_covering_contained", ev.Options{
		Rule:  regions + "; " + cfgs + " (MaxLevel additionally capped ~7 levels below the region's scale: the documentation warns that interior coverings subdivide to MaxLevel). Every cell of InteriorCovering and InteriorCellUnion: 3x3 uv grid, four Vertex(k), centre must not be outside the region (oracle as above); level rules; MaxCells rule; contained in Covering of the same configuration. Non-trivial = at least one cell returned.",
		Quick: 9000, Thorough: 300000}, genIntCase, checkInterior)
	ev.Define("flood_fill_covering", ev.Options{
		Rule:  "connected regions only (no cell unions, polygons with at most 2 rings); level up to the capped MinLevel; start = a point the oracle puts in the region. SimpleRegionCovering / FloodFillRegionCovering: all cells at the requested level, no duplicates, and (start in region) every probe in / near the region is covered as in covering_contains_region. Non-trivial = >= 2 cells and a probe in the region.",
		Quick: 8000, Thorough: 250000}, genFloodCase, checkFloodFill)
	ev.Define("region_predicates_one_sided", ev.Options{
		Rule:  regions + "; target cell: ancestor at a level around the region's scale (-4..+20, or uniform 0..30) of a probe/feature point, or an edge/vertex neighbour of it; for cell regions also members, their ancestors and descendants. Cell points: 5x5 uv grid incl. the boundary, 8 random interior points, Vertex(k), centre, region features and probes that fall in the cell, their uv clamp onto the cell, and the region's nearest points to the cell centre/vertices/edge midpoints. ContainsCell => no cell point outside the region; !IntersectsCell => no cell point in the region (cell regions: interior points only; polylines: also points inside the cell by 1e-13 that are within 4 eps of an edge); ContainsCell => IntersectsCell. Non-trivial = the cell meets the boundary (intersects but not contained, or mixed in/out points, or a point within the margin).",
		Quick: 40000, Thorough: 1200000}, genPredCase, checkPredicates)
}
