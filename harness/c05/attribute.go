package c05

import (
	"math"

	"github.com/golang/geo/r1"
	"github.com/golang/geo/s1"
	"github.com/golang/geo/s2"
)

// This file only classifies outcomes that have ALREADY failed, so that a
// confirmed defect gets a narrow finding class. It restates the algorithm of
// Rect.IntersectsCell with one switch: how the longitude span of a cell edge
// is formed (IntervalFromEndpoints, as the library does, or the minimal
// interval IntervalFromPointPair).

func portIntersectsLatEdge(a, b s2.Point, lat float64, lng s1.Interval) bool {
	z := s2.Point{Vector: a.PointCross(b).Normalize()}
	if z.Z < 0 {
		z = s2.Point{Vector: z.Mul(-1)}
	}
	y := s2.Point{Vector: z.PointCross(s2.PointFromCoords(0, 0, 1)).Normalize()}
	x := y.Cross(z.Vector)
	sinLat := math.Sin(lat)
	if math.Abs(sinLat) >= x.Z {
		return false
	}
	cosTheta := sinLat / x.Z
	sinTheta := math.Sqrt(1 - cosTheta*cosTheta)
	theta := math.Atan2(sinTheta, cosTheta)
	abTheta := s1.IntervalFromPointPair(math.Atan2(a.Dot(y.Vector), a.Dot(x)), math.Atan2(b.Dot(y.Vector), b.Dot(x)))
	if abTheta.Contains(theta) {
		isect := x.Mul(cosTheta).Add(y.Mul(sinTheta))
		if lng.Contains(math.Atan2(isect.Y, isect.X)) {
			return true
		}
	}
	if abTheta.Contains(-theta) {
		isect := x.Mul(cosTheta).Sub(y.Mul(sinTheta))
		if lng.Contains(math.Atan2(isect.Y, isect.X)) {
			return true
		}
	}
	return false
}

func portIntersectsLngEdge(a, b s2.Point, lat r1.Interval, lng float64) bool {
	return s2.CrossingSign(a, b, s2.PointFromLatLng(s2.LatLng{Lat: s1.Angle(lat.Lo), Lng: s1.Angle(lng)}),
		s2.PointFromLatLng(s2.LatLng{Lat: s1.Angle(lat.Hi), Lng: s1.Angle(lng)})) == s2.Cross
}

func portRectIntersectsCell(r s2.Rect, c s2.Cell, pointPair bool) bool {
	if r.IsEmpty() {
		return false
	}
	if r.ContainsPoint(c.ID().Point()) {
		return true
	}
	if c.ContainsPoint(s2.PointFromLatLng(r.Center())) {
		return true
	}
	if !r.Intersects(c.RectBound()) {
		return false
	}
	var vertices [4]s2.Point
	var latlngs [4]s2.LatLng
	for i := range vertices {
		vertices[i] = c.Vertex(i)
		latlngs[i] = s2.LatLngFromPoint(vertices[i])
		if r.ContainsLatLng(latlngs[i]) {
			return true
		}
		if c.ContainsPoint(s2.PointFromLatLng(r.Vertex(i))) {
			return true
		}
	}
	for i := range vertices {
		var edgeLng s1.Interval
		if pointPair {
			edgeLng = s1.IntervalFromPointPair(latlngs[i].Lng.Radians(), latlngs[(i+1)&3].Lng.Radians())
		} else {
			edgeLng = s1.IntervalFromEndpoints(latlngs[i].Lng.Radians(), latlngs[(i+1)&3].Lng.Radians())
		}
		if !r.Lng.Intersects(edgeLng) {
			continue
		}
		a, b := vertices[i], vertices[(i+1)&3]
		if edgeLng.Contains(r.Lng.Lo) && portIntersectsLngEdge(a, b, r.Lat, r.Lng.Lo) {
			return true
		}
		if edgeLng.Contains(r.Lng.Hi) && portIntersectsLngEdge(a, b, r.Lat, r.Lng.Hi) {
			return true
		}
		if portIntersectsLatEdge(a, b, r.Lat.Lo, r.Lng) {
			return true
		}
		if portIntersectsLatEdge(a, b, r.Lat.Hi, r.Lng) {
			return true
		}
	}
	return false
}

// rectEdgeLngDefect: the library answers "no intersection" for this cell, the
// restated algorithm agrees when edge spans are formed with
// IntervalFromEndpoints, and answers "intersects" with IntervalFromPointPair.
func rectEdgeLngDefect(s Spec, c s2.Cell) bool {
	if s.Kind != "rect" {
		return false
	}
	r := s.rect()
	return !r.IntersectsCell(c) && !portRectIntersectsCell(r, c, false) && portRectIntersectsCell(r, c, true)
}

// rectEdgeLngDefectAt: some ancestor of the leaf cell of p shows the defect.
func rectEdgeLngDefectAt(s Spec, p s2.Point) bool {
	if s.Kind != "rect" {
		return false
	}
	leaf := leafID(p)
	for l := 0; l <= 30; l++ {
		if rectEdgeLngDefect(s, s2.CellFromCellID(leaf.Parent(l))) {
			return true
		}
	}
	return false
}

const findingRectEdgeLng = "rect-intersectscell-edge-lng-span"
