package c05

import (
	"fmt"
	"testing"

	"github.com/golang/geo/s2"

	"pgregory.net/rapid"
)

func TestDbgBulge(t *testing.T) {
	n, hint, fails := 0, 0, 0
	fam := map[string]int{}
	for seed := 0; seed < 3000; seed++ {
		c := rapid.Custom(genPredCase).Example(seed)
		if c.R.Kind != "rect" {
			continue
		}
		fam[c.R.Family]++
		if c.R.Family != "edge-bulge" {
			continue
		}
		n++
		if c.Cell == c.R.Hint {
			hint++
			cell := s2.CellFromCellID(s2.CellID(c.Cell))
			r := c.R.rect()
			fmt.Printf("hint face %d rect lat %v lng %v lib=%v portEnd=%v portPP=%v\n", cell.Face(), c.R.Lat, c.R.Lng, r.IntersectsCell(cell), portRectIntersectsCell(r, cell, false), portRectIntersectsCell(r, cell, true))
		}
		o := checkPredicates(c)
		if o.Err != "" {
			fails++
			if fails < 3 {
				fmt.Println(o.Finding, o.Err)
			}
		}
	}
	fmt.Println("edge-bulge", n, "hint", hint, "fails", fails, fam)
}
