package c10

import (
	"testing"

	"verifharness/internal/ev"
)

func TestMain(m *testing.M)   { ev.Main(m, "C10") }
func TestProps(t *testing.T)  { ev.RunAll(t) }
func TestReplay(t *testing.T) { ev.Replay(t) }
