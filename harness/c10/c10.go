// Package c10: bounds are conservative — nothing a region contains lies outside
// its lat-lng rectangle, its cap, its cell-union bound; the bound grown for
// sub-regions contains the bound of every contained loop; the convex hull is
// convex and contains (or has as a vertex) every input point.
//
// Containment truth never comes from the region's own ContainsPoint (which
// itself consults the bound): loops and polygons use the exact crossing parity
// from a point known by construction, cells and convex loops use exact
// half-space tests, caps use the exact chord comparison.
package c10

import (
	"fmt"
	"math"

	"github.com/golang/geo/r3"
	"github.com/golang/geo/s1"
	"github.com/golang/geo/s2"
	"pgregory.net/rapid"

	"verifharness/internal/ev"
	"verifharness/internal/exact"
	"verifharness/internal/gen"
	"verifharness/internal/hp"
)

const eps = 0x1p-52 // dblEpsilon of the library

// ------------------------------------------------------------------ helpers

func vecs(v []gen.P) []r3.Vector {
	out := make([]r3.Vector, len(v))
	for i, p := range v {
		out[i] = p.Pt().Vector
	}
	return out
}

func allUnit(v []gen.P) bool {
	for _, p := range v {
		if !gen.Unit(p.Pt()) {
			return false
		}
	}
	return true
}

func frame(c s2.Point) (x, y r3.Vector) {
	x = c.Ortho()
	y = c.Cross(x).Normalize()
	return x, y
}

// at: the point at angular distance r from c in direction azimuth az of the frame.
func at(c s2.Point, x, y r3.Vector, r, az float64) s2.Point {
	d := x.Mul(math.Cos(az)).Add(y.Mul(math.Sin(az)))
	return s2.Point{Vector: c.Mul(math.Cos(r)).Add(d.Mul(math.Sin(r))).Normalize()}
}

// azimuthOf is the azimuth of p about c in the frame (x,y).
func azimuthOf(p s2.Point, x, y r3.Vector) float64 { return math.Atan2(p.Dot(y), p.Dot(x)) }

func fromLatLngRad(lat, lng float64) s2.Point {
	cl := math.Cos(lat)
	return s2.Point{Vector: r3.Vector{X: math.Cos(lng) * cl, Y: math.Sin(lng) * cl, Z: math.Sin(lat)}.Normalize()}
}

// detSign is the sign of the exact determinant |a b c| (no symbolic
// perturbation: 0 means exactly coplanar), with a conservative float filter.
func detSign(a, b, c r3.Vector) int {
	det := a.X*(b.Y*c.Z-b.Z*c.Y) + a.Y*(b.Z*c.X-b.X*c.Z) + a.Z*(b.X*c.Y-b.Y*c.X)
	if det > 1e-13 {
		return 1
	}
	if det < -1e-13 {
		return -1
	}
	return exact.DetSign(a, b, c)
}

func antipodalish(a, b s2.Point) bool { return a.Dot(b.Vector) < -0.98 }

// lngIn is interval membership on the circle written out here (not s1.Interval).
func lngIn(iv s1.Interval, x float64) bool {
	if x == -math.Pi {
		x = math.Pi
	}
	if iv.Lo <= iv.Hi {
		return iv.Lo <= x && x <= iv.Hi
	}
	if iv.Lo == math.Pi && iv.Hi == -math.Pi { // empty
		return false
	}
	return x >= iv.Lo || x <= iv.Hi
}

// lngExcess: how far (radians) x lies outside the interval (0 if inside).
func lngExcess(iv s1.Interval, x float64) float64 {
	if lngIn(iv, x) {
		return 0
	}
	d := func(a, b float64) float64 {
		v := math.Abs(a - b)
		if v > math.Pi {
			v = 2*math.Pi - v
		}
		return v
	}
	return math.Min(d(x, iv.Lo), d(x, iv.Hi))
}

// rectMiss describes how the computed (lat,lng) of p lies outside r.
type rectMiss struct {
	miss         bool
	latEx, lngEx float64 // radians outside (0 if inside)
	libDisagrees bool
	lat, lng     float64
	where        string
}

// rectHas: does r contain the computed latitude/longitude of p — by the
// library's ContainsLatLng and by plain comparisons written here.
func rectHas(r s2.Rect, p s2.Point) rectMiss {
	ll := s2.LatLngFromPoint(p)
	lat, lng := ll.Lat.Radians(), ll.Lng.Radians()
	m := rectMiss{lat: lat, lng: lng}
	latOK := !r.IsEmpty() && r.Lat.Lo <= lat && lat <= r.Lat.Hi
	lngOK := !r.IsEmpty() && lngIn(r.Lng, lng)
	if !latOK {
		m.latEx = math.Max(r.Lat.Lo-lat, lat-r.Lat.Hi)
		if r.IsEmpty() {
			m.latEx = math.Pi
		}
		m.where = "lat"
	}
	if !lngOK {
		m.lngEx = lngExcess(r.Lng, lng)
		if r.IsEmpty() {
			m.lngEx = math.Pi
		}
		m.where += "lng"
	}
	own := latOK && lngOK
	lib := r.ContainsLatLng(ll)
	m.libDisagrees = own != lib
	m.miss = !own || !lib
	return m
}

func (m rectMiss) String() string {
	return fmt.Sprintf("computed lat=%.17g lng=%.17g outside by lat %.3g eps, lng %.3g eps (library/own disagree=%v)",
		m.lat, m.lng, m.latEx/eps, m.lngEx/eps, m.libDisagrees)
}

// capHas: library answer and the exact answer (exact chord² against the cap's
// stored squared-chord radius, which is 2·Height() exactly).
func capHas(c s2.Cap, p s2.Point) (lib, exactIn bool) {
	lib = c.ContainsPoint(p)
	if c.IsEmpty() {
		return lib, false
	}
	r2 := 2 * c.Height()
	if r2 >= 4 {
		return lib, true
	}
	exactIn = exact.CompareChord2(c.Center().Vector, p.Vector, r2) <= 0
	return lib, exactIn
}

// covers: some cell of ids contains p as a closed cell (the library's cell
// membership, which is closed with a 1-eps uv margin). leaf reports the
// stricter "the leaf cell of p descends from one of the ids".
func covers(ids []s2.CellID, p s2.Point) (closed, leaf bool) {
	lf := s2.CellFromPoint(p).ID()
	for _, id := range ids {
		if !id.IsValid() {
			continue
		}
		if id.Contains(lf) {
			return true, true
		}
	}
	for _, id := range ids {
		if id.IsValid() && s2.CellFromCellID(id).ContainsPoint(p) {
			return true, false
		}
	}
	return false, false
}

// boundsOf bundles the three bounds of a region.
type boundsOf struct {
	rect s2.Rect
	cap  s2.Cap
	cu   []s2.CellID
	// longEdge: the region has an edge longer than 2.6 rad (149°). A latitude
	// miss of such a region is labelled with the narrow class of the
	// ill-conditioned "latitude budget" (asin near 1) of long edges.
	longEdge bool
}

// hasLongEdge: some consecutive pair of the chain is more than 2.6 rad apart.
func hasLongEdge(v []r3.Vector, closed bool) bool {
	n := len(v)
	m := n
	if !closed {
		m = n - 1
	}
	for i := 0; i < m; i++ {
		if v[i].Dot(v[(i+1)%n]) < -0.857 {
			return true
		}
	}
	return false
}

func regionBounds(r s2.Region) boundsOf {
	return boundsOf{rect: r.RectBound(), cap: r.CapBound(), cu: r.CellUnionBound()}
}

// roundingLevel: a miss of at most this many radians on the sphere is labelled
// "-rounding" in the finding class (a unit-in-the-last-place effect), anything
// larger is a geometric shortfall of the bound.
const roundingLevel = 4 * eps

func (m rectMiss) suffix() string {
	cl := math.Cos(m.lat)
	if m.latEx <= roundingLevel && m.lngEx*cl <= roundingLevel {
		return m.where + "-rounding"
	}
	return m.where
}

// capExcess: angle by which p lies outside the cap (radians, float estimate
// through atan2 forms that stay accurate for large caps).
func capExcess(c s2.Cap, p s2.Point) float64 {
	d := float64(c.Center().Angle(p.Vector))
	if d < 1e-7 {
		d = c.Center().Sub(p.Vector).Norm()
	}
	r2 := math.Max(0, math.Min(4, 2*c.Height()))
	r := math.Atan2(math.Sqrt(r2*(1-r2/4)), 1-r2/2)
	if r2 < 1e-14 {
		r = math.Sqrt(r2)
	}
	return d - r
}

// capSuffix: "-rounding" if the miss is at the level of the cap's own
// arithmetic: the direction of p is exactly inside the cap (only the
// floating-point evaluation of ContainsPoint rejects it), or the computed
// squared chord exceeds the radius by at most 8 eps relative (a few units in
// the last place of the quantity ContainsPoint compares), or the angle by at
// most roundingLevel. Anything else is a geometric shortfall.
func capSuffix(c s2.Cap, p s2.Point) string {
	if _, ex := capHas(c, p); ex {
		return "-rounding"
	}
	d2 := float64(s2.ChordAngleBetweenPoints(c.Center(), p))
	r2 := 2 * c.Height()
	if d2-r2 <= 8*eps*math.Max(d2, r2) || capExcess(c, p) <= roundingLevel {
		return "-rounding"
	}
	return ""
}

// check asserts that a point known to belong to the region lies in all three
// bounds. what names the region; on a miss it fills o.Err / o.Finding.
func (b boundsOf) check(p s2.Point, what string, o *ev.Outcome) bool {
	if r := b.rect; math.IsNaN(r.Lat.Lo) || math.IsNaN(r.Lat.Hi) || math.IsNaN(r.Lng.Lo) || math.IsNaN(r.Lng.Hi) {
		o.Err = fmt.Sprintf("%s: RectBound has a NaN coordinate: Lat [%v, %v] Lng [%v, %v]", what, r.Lat.Lo, r.Lat.Hi, r.Lng.Lo, r.Lng.Hi)
		o.Finding = "rect-bound-nan"
		return false
	}
	if m := rectHas(b.rect, p); m.miss {
		o.Err = fmt.Sprintf("%s: contained point %v not in RectBound %v: %v", what, p.Vector, b.rect, m)
		o.Finding = what + "-rect-" + m.suffix()
		if b.longEdge && m.latEx > 0 {
			o.Finding = "bounder-long-edge-lat"
		}
		if m.libDisagrees {
			o.Finding = "rect-containslatlng"
		}
		return false
	}
	if lib, ex := capHas(b.cap, p); !lib {
		o.Err = fmt.Sprintf("%s: contained point %v not in CapBound (centre %v, height %.17g, radius %v): outside by %.3g eps; exact chord test inside=%v; RectBound %v",
			what, p.Vector, b.cap.Center().Vector, b.cap.Height(), b.cap.Radius(), capExcess(b.cap, p)/eps, ex, b.rect)
		o.Finding = what + "-cap" + capSuffix(b.cap, p)
		return false
	}
	if cl, _ := covers(b.cu, p); !cl {
		o.Err = fmt.Sprintf("%s: contained point %v not covered by CellUnionBound %v", what, p.Vector, b.cu)
		o.Finding = what + "-cellunion"
		return false
	}
	return true
}

func ratio(o *ev.Outcome, k string, v float64) {
	if o.Ratios == nil {
		o.Ratios = map[string]float64{}
	}
	if v > o.Ratios[k] {
		o.Ratios[k] = v
	}
}

func count(o *ev.Outcome, k string, n int) {
	if o.Counts == nil {
		o.Counts = map[string]int{}
	}
	o.Counts[k] += n
}

// padUsed records how much of the final 2-eps latitude padding of RectBound a
// contained point consumed (1 = on the limit, >1 would be a violation).
func padUsed(o *ev.Outcome, r s2.Rect, p s2.Point) {
	lat := s2.LatLngFromPoint(p).Lat.Radians()
	if r.Lat.Hi < math.Pi/2 {
		if u := 1 + (lat-r.Lat.Hi)/(2*eps); u > 0 {
			ratio(o, "rect_lat_final_2eps_padding_used", u)
		}
	}
	if r.Lat.Lo > -math.Pi/2 {
		if u := 1 + (r.Lat.Lo-lat)/(2*eps); u > 0 {
			ratio(o, "rect_lat_final_2eps_padding_used", u)
		}
	}
}

// ---------------------------------------------------------- hp edge geometry

// hpOnEdge returns the float64 rounding of the point (1-t)a+tb projected to the
// sphere, computed at 320 bits: within one rounding of the geodesic ab.
func hpOnEdge(a, b s2.Point, t float64) s2.Point {
	A, B := hp.Vec(a.Vector), hp.Vec(b.Vector)
	v := A.Scale(hp.F(1 - t)).Add(B.Scale(hp.F(t)))
	if v.IsZero() {
		return a
	}
	return gen.Fix(s2.Point{Vector: v.Unit().R3()}, a)
}

// hpLatExtremum returns the point of the great circle through a,b that is
// closest to the north pole (sgn=+1) or south pole (sgn=-1), rounded, and
// whether it lies within the edge ab.
func hpLatExtremum(a, b s2.Point, sgn float64) (s2.Point, bool) {
	A, B := hp.Vec(a.Vector), hp.Vec(b.Vector)
	n := A.Cross(B)
	if n.IsZero() {
		return a, false
	}
	z := hp.Vec(r3.Vector{Z: sgn})
	m := n.Cross(z.Cross(n)) // component of z orthogonal to n, scaled by |n|²
	if m.IsZero() {
		return a, false
	}
	in := A.Cross(m).Dot(n).Sign() > 0 && m.Cross(B).Dot(n).Sign() > 0
	p := s2.Point{Vector: m.Unit().R3()}
	if !gen.Unit(p) {
		return a, false
	}
	return p, in
}

// boundaryDistance: float estimate of the distance from p to the closed chain
// v (radians) and whether the nearest feature is an edge interior.
func boundaryDistance(v []r3.Vector, p r3.Vector) (float64, bool) {
	best, interior := math.Inf(1), false
	n := len(v)
	for i := 0; i < n; i++ {
		a, b := v[i], v[(i+1)%n]
		if d := p.Sub(a).Norm(); d < best {
			best, interior = d, false
		}
		nn := a.Cross(b)
		l := nn.Norm()
		if l < 1e-12 {
			continue
		}
		if a.Cross(p).Dot(nn) > 0 && p.Cross(b).Dot(nn) > 0 {
			if d := math.Abs(p.Dot(nn)) / l; d < best {
				best, interior = d, true
			}
		}
	}
	return best, interior
}

// ------------------------------------------------------------ loop families

// poleVertexLoop: a star loop one of whose vertices is the pole itself or lies
// 1e-300…1e-9 rad from it.
func poleVertexLoop(t *rapid.T, label string) gen.LoopCase {
	sgn := rapid.SampledFrom([]float64{1, -1}).Draw(t, label+".pole")
	var q s2.Point
	if rapid.IntRange(0, 5).Draw(t, label+".exactpole") == 0 {
		q = s2.Point{Vector: r3.Vector{Z: sgn}}
	} else {
		off := math.Pow(10, rapid.Float64Range(-300, -9).Draw(t, label+".off10"))
		phi := rapid.Float64Range(-math.Pi, math.Pi).Draw(t, label+".phi")
		q = s2.Point{Vector: r3.Vector{X: off * math.Cos(phi), Y: off * math.Sin(phi), Z: sgn}}
	}
	thc := math.Exp(rapid.Float64Range(math.Log(1e-5), math.Log(1.3)).Draw(t, label+".thc"))
	lam := rapid.Float64Range(-math.Pi, math.Pi).Draw(t, label+".lam")
	if rapid.IntRange(0, 3).Draw(t, label+".seam") == 0 {
		lam = rapid.SampledFrom([]float64{math.Pi, -math.Pi, 0, math.Pi / 2}).Draw(t, label+".lamc")
	}
	c := s2.Point{Vector: r3.Vector{X: math.Sin(thc) * math.Cos(lam), Y: math.Sin(thc) * math.Sin(lam), Z: sgn * math.Cos(thc)}.Normalize()}
	x, y := frame(c)
	azP := azimuthOf(q, x, y)
	n := rapid.IntRange(3, 16).Draw(t, label+".n")
	rmax := math.Exp(rapid.Float64Range(math.Log(thc*0.05), math.Log(1.39)).Draw(t, label+".rmax"))
	w := make([]float64, n)
	sum := 0.0
	for i := range w {
		w[i] = rapid.Float64Range(0.5, 1).Draw(t, label+".w")
		sum += w[i]
	}
	if n == 3 {
		w[0], w[1], w[2], sum = 1, 1, 1, 3
	}
	v := []gen.P{gen.FromPt(q)}
	az := azP
	for i := 1; i < n; i++ {
		az += w[i-1] / sum * 2 * math.Pi
		r := rmax * rapid.Float64Range(0.3, 1).Draw(t, label+".r")
		v = append(v, gen.FromPt(at(c, x, y, r, az)))
	}
	return gen.LoopCase{V: v, Kind: "pole-vertex", Inside: gen.FromPt(c)}
}

var tinyEtas = []float64{0, 1e-16, 2e-16, 2 * eps, 3 * eps, 1e-15, 4e-15, 1e-12, 1e-9, 1e-6, 1e-3}

// poleEdgeLoop: a star loop with one edge uv whose endpoints lie on (nearly)
// opposite meridians, so the edge passes through or within a hair of the pole
// and spans π−η…π of longitude.
func poleEdgeLoop(t *rapid.T, label string) gen.LoopCase {
	sgn := rapid.SampledFrom([]float64{1, -1}).Draw(t, label+".pole")
	lam := rapid.Float64Range(-math.Pi, math.Pi).Draw(t, label+".lam")
	if rapid.IntRange(0, 2).Draw(t, label+".axis") == 0 {
		lam = rapid.SampledFrom([]float64{0, math.Pi / 2, -math.Pi / 2, math.Pi / 4}).Draw(t, label+".lamc")
	}
	eta := rapid.SampledFrom(tinyEtas).Draw(t, label+".eta") * rapid.SampledFrom([]float64{1, -1}).Draw(t, label+".etas")
	colat := func(l string) float64 {
		if rapid.Bool().Draw(t, l+".tiny") {
			return math.Pow(10, rapid.Float64Range(-9, -1).Draw(t, l+".e"))
		}
		return rapid.Float64Range(0.05, 1.2).Draw(t, l)
	}
	thu, thv := colat(label+".thu"), colat(label+".thv")
	mk := func(th, lng float64) s2.Point {
		return s2.Point{Vector: r3.Vector{X: math.Sin(th) * math.Cos(lng), Y: math.Sin(th) * math.Sin(lng), Z: sgn * math.Cos(th)}.Normalize()}
	}
	u := mk(thu, lam)
	vv := mk(thv, lam+math.Pi+eta)
	if lam == 0 && eta == 0 {
		// exactly in the plane y = 0: the great circle passes through the pole exactly
		u = s2.Point{Vector: r3.Vector{X: math.Sin(thu), Y: 0, Z: sgn * math.Cos(thu)}.Normalize()}
		vv = s2.Point{Vector: r3.Vector{X: -math.Sin(thv), Y: 0, Z: sgn * math.Cos(thv)}.Normalize()}
	}
	side := rapid.SampledFrom([]float64{1, -1}).Draw(t, label+".side")
	thc := rapid.Float64Range(0.3, 1.2).Draw(t, label+".thc")
	c := mk(thc, lam+side*math.Pi/2)
	x, y := frame(c)
	first, second := u, vv
	if detSign(c.Vector, u.Vector, vv.Vector) < 0 {
		first, second = vv, u
	}
	az1, az2 := azimuthOf(first, x, y), azimuthOf(second, x, y)
	gap := math.Mod(az2-az1+4*math.Pi, 2*math.Pi)
	if gap > math.Pi { // both within rounding of the same azimuth; the exact order was used above
		gap = 0
	}
	rest := 2*math.Pi - gap
	k := rapid.IntRange(2, 8).Draw(t, label+".k")
	w := make([]float64, k+1)
	sum := 0.0
	for i := range w {
		w[i] = rapid.Float64Range(0.7, 1).Draw(t, label+".w")
		sum += w[i]
	}
	v := []gen.P{gen.FromPt(first), gen.FromPt(second)}
	az := az2
	for i := 0; i < k; i++ {
		az += w[i] / sum * rest
		r := rapid.Float64Range(0.05, 1.39).Draw(t, label+".r")
		v = append(v, gen.FromPt(at(c, x, y, r, az)))
	}
	return gen.LoopCase{V: v, Kind: "pole-edge", Inside: gen.FromPt(c)}
}

// luneLoop: a triangle a→b→p with b within δ of the antipode of a (δ from
// 2e-16 up), the long edge leaving a along azimuth 0 and the third vertex at
// 90° from a along azimuth φ: a thin or wide lune. Exactly antipodal b is
// rejected by Validate and skipped.
func luneLoop(t *rapid.T, label string) gen.LoopCase {
	a := gen.SpecialCenter(t, label+".a")
	switch rapid.IntRange(0, 7).Draw(t, label+".nearpole") {
	case 0, 1:
		off := math.Pow(10, rapid.Float64Range(-20, -3).Draw(t, label+".off10"))
		if rapid.Bool().Draw(t, label+".offulp") {
			off = rapid.SampledFrom([]float64{2e-16, 3e-16, 4e-16, 5e-16, 7e-16, 1e-15}).Draw(t, label+".offc")
		}
		a = s2.Point{Vector: r3.Vector{X: off, Y: 0, Z: 1}.Normalize()}
	case 2, 3:
		// exactly on the equator (the bound of a lune leaning to one side then
		// touches but does not straddle the equator)
		lam := rapid.Float64Range(-math.Pi, math.Pi).Draw(t, label+".eqlam")
		ez := rapid.SampledFrom([]float64{0, 0, 5e-16, 7e-16, 1e-15, 2e-15, -5e-16}).Draw(t, label+".eqz")
		a = gen.Fix(s2.Point{Vector: r3.Vector{X: math.Cos(lam), Y: math.Sin(lam), Z: ez}.Normalize()}, a)
	}
	x, y := frame(a)
	rot := rapid.Float64Range(0, 2*math.Pi).Draw(t, label+".rot")
	d := x.Mul(math.Cos(rot)).Add(y.Mul(math.Sin(rot)))
	delta := rapid.SampledFrom([]float64{2e-16, 4e-16, 6e-16, 9e-16, 1e-15, 1.2e-15, 2e-15, 1e-14, 1e-12, 1e-9, 1e-7, 1e-5, 1e-3, 0.1}).Draw(t, label+".delta")
	phi := rapid.SampledFrom([]float64{1e-3, 0.05, 0.5, 1.5, 2.5, 3.0}).Draw(t, label+".phi")
	if rapid.IntRange(0, 2).Draw(t, label+".viapole") == 0 {
		// the direction in which b is pulled (and through which the geodesic a→b
		// passes) is that of a pole: a on or near the equator, exactly in a
		// coordinate plane half of the time
		lat0 := rapid.SampledFrom([]float64{0, 0, 1e-9, -1e-3, 0.3, -1.2}).Draw(t, label+".lat0")
		lam := rapid.SampledFrom([]float64{0, math.Pi / 2, math.Pi, -math.Pi / 2, 0.7, -2.5}).Draw(t, label+".lam0")
		switch lam {
		case 0:
			a = s2.Point{Vector: r3.Vector{X: math.Cos(lat0), Y: 0, Z: math.Sin(lat0)}.Normalize()}
		case math.Pi / 2:
			a = s2.Point{Vector: r3.Vector{X: 0, Y: math.Cos(lat0), Z: math.Sin(lat0)}.Normalize()}
		default:
			a = fromLatLngRad(lat0, lam)
		}
		zs := rapid.SampledFrom([]float64{1, -1}).Draw(t, label+".zs")
		z := r3.Vector{Z: zs}
		md := z.Sub(a.Mul(z.Dot(a.Vector))).Normalize()
		ep := a.Cross(md).Normalize()
		d = md.Mul(math.Cos(phi / 2)).Sub(ep.Mul(math.Sin(phi / 2)))
	}
	e := a.Cross(d).Normalize()
	// b = -a pulled by delta towards the inside of the lune (azimuth phi/2)
	m := d.Mul(math.Cos(phi / 2)).Add(e.Mul(math.Sin(phi / 2)))
	b := gen.Fix(s2.Point{Vector: a.Mul(-1).Add(m.Mul(delta)).Normalize()}, a)
	p := gen.Fix(s2.Point{Vector: d.Mul(math.Cos(phi)).Add(e.Mul(math.Sin(phi))).Normalize()}, a)
	d0 := gen.Fix(s2.Point{Vector: d.Normalize()}, a)
	var v []gen.P
	if rapid.Bool().Draw(t, label+".quad") {
		// convex quad a, d0, b, p: the near-antipodal pair is a diagonal
		v = []gen.P{gen.FromPt(a), gen.FromPt(d0), gen.FromPt(b), gen.FromPt(p)}
	} else {
		// triangle with the near-antipodal pair as an edge (through m)
		v = []gen.P{gen.FromPt(a), gen.FromPt(b), gen.FromPt(p)}
	}
	in := gen.Fix(s2.Point{Vector: d.Mul(math.Cos(phi * 0.75)).Add(e.Mul(math.Sin(phi * 0.75))).Normalize()}, a)
	return gen.LoopCase{V: v, Kind: "lune", Inside: gen.FromPt(in)}
}

// circleSpec: vertices on a small circle about C (hence a convex loop), with
// the circle optionally passing within a tiny offset of a pole and with a
// vertex or an edge midpoint placed exactly in the direction of the pole.
type circleSpec struct {
	C   gen.P
	V   []gen.P
	R   float64
	Az  []float64
	Fam string
}

func drawCircle(t *rapid.T, label string, maxN int) circleSpec {
	var c s2.Point
	var r float64
	fam := "free"
	x0, y0 := r3.Vector{}, r3.Vector{}
	azN := 0.0
	switch rapid.IntRange(0, 3).Draw(t, label+".fam") {
	case 0, 1:
		// boundary passes near a pole
		sgn := rapid.SampledFrom([]float64{1, -1}).Draw(t, label+".pole")
		thc := math.Exp(rapid.Float64Range(math.Log(1e-3), math.Log(1.35)).Draw(t, label+".thc"))
		lam := rapid.Float64Range(-math.Pi, math.Pi).Draw(t, label+".lam")
		c = s2.Point{Vector: r3.Vector{X: math.Sin(thc) * math.Cos(lam), Y: math.Sin(thc) * math.Sin(lam), Z: sgn * math.Cos(thc)}.Normalize()}
		off := rapid.SampledFrom([]float64{0, 1e-16, 1e-15, 1e-14, 1e-12, 1e-9, 1e-6, 1e-3, 0.02}).Draw(t, label+".off") *
			rapid.SampledFrom([]float64{1, 1, -1}).Draw(t, label+".offs")
		r = thc - off*math.Min(1, thc*10)
		if r > 1.39 {
			r = 1.39
		}
		if r < thc*0.5 {
			r = thc * 0.5
		}
		fam = "near-pole"
		x0, y0 = frame(c)
		azN = azimuthOf(s2.Point{Vector: r3.Vector{Z: sgn}}, x0, y0)
	default:
		c = gen.SpecialCenter(t, label+".c")
		r = math.Exp(rapid.Float64Range(math.Log(1e-6), math.Log(1.39)).Draw(t, label+".lr"))
		x0, y0 = frame(c)
		if math.Abs(c.Z) < 1 {
			azN = azimuthOf(s2.Point{Vector: r3.Vector{Z: 1}}, x0, y0)
		}
	}
	n := rapid.IntRange(3, maxN).Draw(t, label+".n")
	// minimum azimuth gap keeping consecutive triples robustly convex (sagitta ≫ rounding)
	minGap := math.Sqrt(8e-13 / math.Max(1e-300, math.Cos(r)*math.Sin(r)))
	w := make([]float64, n)
	sum := 0.0
	for i := range w {
		w[i] = rapid.Float64Range(0.45, 1).Draw(t, label+".w")
		if rapid.IntRange(0, 5).Draw(t, label+".cluster") == 0 && n > 4 {
			w[i] = math.Pow(10, rapid.Float64Range(-6, -1).Draw(t, label+".wt"))
		}
		sum += w[i]
	}
	big := 0
	for i := range w {
		if w[i] >= 0.45 {
			big++
		}
	}
	if big < 3 || n == 3 {
		for i := range w {
			w[i] = 1
		}
		sum = float64(n)
	}
	g := make([]float64, n)
	gs := 0.0
	for i := range g {
		g[i] = math.Max(w[i]/sum*2*math.Pi, minGap)
		gs += g[i]
	}
	for i := range g {
		if g[i]/gs*2*math.Pi > 170*math.Pi/180 { // C must stay inside: fall back to even spacing
			for j := range g {
				g[j] = 1
			}
			gs = float64(n)
			break
		}
	}
	az0 := azN
	switch rapid.IntRange(0, 2).Draw(t, label+".north") {
	case 0: // a vertex exactly towards the pole
	case 1: // an edge midpoint towards the pole
		az0 = azN - g[0]/gs*math.Pi
	default:
		az0 = rapid.Float64Range(0, 2*math.Pi).Draw(t, label+".az0")
	}
	cs := circleSpec{C: gen.FromPt(c), R: r, Fam: fam}
	az := az0
	for i := 0; i < n; i++ {
		cs.Az = append(cs.Az, az)
		cs.V = append(cs.V, gen.FromPt(at(c, x0, y0, r, az)))
		az += g[i] / gs * 2 * math.Pi
	}
	return cs
}

func (cs circleSpec) loopCase() gen.LoopCase {
	return gen.LoopCase{V: cs.V, Kind: "circle-" + cs.Fam, Inside: cs.C}
}

// convexCCW: every consecutive triple turns left (exact) and every vertex is
// strictly on the left of... the centre side: c is strictly left of every edge.
func convexCCW(c r3.Vector, v []r3.Vector) bool {
	n := len(v)
	if n < 3 {
		return false
	}
	for i := 0; i < n; i++ {
		a, b, d := v[i], v[(i+1)%n], v[(i+2)%n]
		if detSign(a, b, d) <= 0 || detSign(a, b, c) <= 0 || detSign(c, a, b) <= 0 {
			return false
		}
	}
	return true
}

// insideConvex: p relative to the convex loop v: +1 strictly inside, 0 on the
// boundary (some determinant exactly zero, none negative), -1 outside.
func insideConvex(v []r3.Vector, p r3.Vector) int {
	res := 1
	n := len(v)
	for i := 0; i < n; i++ {
		switch detSign(v[i], v[(i+1)%n], p) {
		case -1:
			return -1
		case 0:
			res = 0
		}
	}
	return res
}

// ------------------------------------------------------------ A: loop bounds

type loopCase struct {
	L      gen.LoopCase
	Probes []gen.P
}

func tinyCoord(t *rapid.T, label string) float64 {
	s := rapid.SampledFrom([]float64{1, -1}).Draw(t, label+".s")
	switch rapid.IntRange(0, 3).Draw(t, label+".k") {
	case 0:
		return 0
	case 1:
		return s * 5e-324
	default:
		return s * math.Pow(10, rapid.Float64Range(-300, -9).Draw(t, label+".e"))
	}
}

// extraProbes: latitude-extremum points of edges (±4 ulps), points on the ±π
// seam, the poles and points within 1e-300…1e-9 of them, points on edges
// computed at high precision (±2 ulps).
func extraProbes(t *rapid.T, label string, v []gen.P, closed bool, n int) []gen.P {
	var out []gen.P
	ne := len(v)
	if !closed {
		ne = len(v) - 1
	}
	if ne < 1 {
		return nil
	}
	for i := 0; i < n; i++ {
		l := fmt.Sprintf("%s.%d", label, i)
		k := rapid.IntRange(0, ne-1).Draw(t, l+".e")
		a, b := v[k].Pt(), v[(k+1)%len(v)].Pt()
		var p s2.Point
		switch rapid.IntRange(0, 7).Draw(t, l+".kind") {
		case 0, 1, 2:
			sgn := rapid.SampledFrom([]float64{1, -1}).Draw(t, l+".sgn")
			q, in := hpLatExtremum(a, b, sgn)
			if !in {
				q = hpOnEdge(a, b, rapid.Float64Range(0, 1).Draw(t, l+".f"))
			}
			p = gen.Perturb(t, l+".pe", q, 4)
		case 3, 4:
			f := rapid.Float64Range(0, 1).Draw(t, l+".f")
			if rapid.IntRange(0, 3).Draw(t, l+".mid") == 0 {
				f = 0.5
			}
			p = gen.Perturb(t, l+".pf", hpOnEdge(a, b, f), 2)
		case 5:
			// on or next to the ±π seam, at the latitude of an edge point
			q := hpOnEdge(a, b, rapid.Float64Range(0, 1).Draw(t, l+".f"))
			xx := -math.Sqrt(math.Max(0, 1-q.Z*q.Z))
			p = gen.Fix(s2.Point{Vector: r3.Vector{X: xx, Y: tinyCoord(t, l+".y"), Z: q.Z}}, q)
		case 6:
			sgn := rapid.SampledFrom([]float64{1, -1}).Draw(t, l+".sgn")
			p = s2.Point{Vector: r3.Vector{X: tinyCoord(t, l+".x"), Y: tinyCoord(t, l+".y"), Z: sgn}}
		default:
			// same longitude as a vertex, slightly different latitude (interior side unknown)
			ll := s2.LatLngFromPoint(a)
			dl := math.Pow(10, rapid.Float64Range(-16, -1).Draw(t, l+".dl")) * rapid.SampledFrom([]float64{1, -1}).Draw(t, l+".ds")
			p = fromLatLngRad(math.Max(-math.Pi/2, math.Min(math.Pi/2, ll.Lat.Radians()+dl)), ll.Lng.Radians())
		}
		out = append(out, gen.FromPt(gen.Fix(p, a)))
	}
	return out
}

func genLoopCase(t *rapid.T) loopCase {
	maxN := 100
	if ev.Thorough() {
		maxN = 400
	}
	var l gen.LoopCase
	switch fam := rapid.IntRange(0, 11).Draw(t, "fam"); {
	case fam <= 3:
		l = gen.Loop(t, "l", maxN)
	case fam <= 5:
		l = poleVertexLoop(t, "pv")
	case fam <= 7:
		l = poleEdgeLoop(t, "pe")
	case fam <= 9:
		l = drawCircle(t, "ci", 40).loopCase()
	default:
		l = luneLoop(t, "lu")
	}
	if l.Kind != "lune" && !l.Inverted && rapid.IntRange(0, 7).Draw(t, "inv") == 0 {
		l = l.Reversed()
	}
	pr := gen.ProbePoints(t, "q", l.V, 12)
	pr = append(pr, extraProbes(t, "x", l.V, true, 16)...)
	pr = append(pr, l.Inside)
	return loopCase{L: l, Probes: pr}
}

func rectShape(r s2.Rect) string {
	switch {
	case r.IsEmpty():
		return "empty"
	case r.IsFull():
		return "full"
	case r.Lat.Hi == math.Pi/2 || r.Lat.Lo == -math.Pi/2:
		return "pole"
	case r.Lng.IsFull():
		return "lngfull"
	case r.Lng.Lo > r.Lng.Hi:
		return "seam"
	}
	return "plain"
}

func checkLoopBounds(c loopCase) ev.Outcome {
	o := ev.Outcome{}
	if len(c.L.V) < 3 || !allUnit(c.L.V) {
		o.Skip = true
		return o
	}
	l := c.L.Loop()
	if err := l.Validate(); err != nil {
		o.Skip = true
		return o
	}
	for i := range c.L.V { // exactly antipodal neighbours are not valid loops
		a, b := c.L.V[i].Pt(), c.L.V[(i+1)%len(c.L.V)].Pt()
		if a.Vector == b.Mul(-1) || a == b {
			o.Skip = true
			return o
		}
	}
	chain := vecs(c.L.V)
	chains := [][]r3.Vector{chain}
	known := c.L.Inside.Pt()
	if c.L.Kind == "lune" {
		// thin lunes are at the mercy of rounding: keep only exactly convex ones
		// with the construction's inside point exactly inside
		n := len(chain)
		for i := 0; i < n; i++ {
			if detSign(chain[i], chain[(i+1)%n], chain[(i+2)%n]) <= 0 {
				o.Skip = true
				return o
			}
		}
		if insideConvex(chain, known.Vector) != 1 {
			o.Skip = true
			return o
		}
	}
	b := regionBounds(l)
	b.longEdge = hasLongEdge(chain, true)
	o.Class = fmt.Sprintf("%s/inv=%v/%s", c.L.Kind, c.L.Inverted, rectShape(b.rect))
	contained, near := 0, 0
	for i, pp := range c.Probes {
		p := pp.Pt()
		if !gen.Unit(p) || antipodalish(known, p) {
			continue
		}
		if !exact.ParityContains(chains, known.Vector, c.L.KnownContains(), p.Vector) {
			continue
		}
		contained++
		if !b.check(p, "loop", &o) {
			o.Err = fmt.Sprintf("probe %d: %s", i, o.Err)
			o.NonTrivial = true
			return o
		}
		padUsed(&o, b.rect, p)
		if d, interior := boundaryDistance(chain, p.Vector); d <= 1e-15 && interior {
			near++
		}
	}
	count(&o, "contained_probes", contained)
	count(&o, "contained_within_1e-15_of_an_edge_interior", near)
	o.NonTrivial = near > 0 && !b.rect.IsFull()
	return o
}

func init() {
	ev.Define("loop_bounds", ev.Options{
		Rule:  "loops valid by construction (regular/star/lattice/cell loops, 1/8 inverted; star loops with a vertex at the pole or 1e-300..1e-9 rad from it; loops with an edge on (nearly) opposite meridians passing through or within a hair of a pole, longitude span pi-eta..pi; convex loops on a small circle grazing a pole; triangles/quads with vertices 2e-16..0.1 rad from antipodal); ~29 probes each: vertices, high-precision points on edges and at each edge's latitude extremum +-4 ulps, seam points (y = 0, +-5e-324, tiny), poles and near-poles, cell centres, interior points. Truth = exact crossing parity from the construction's inside point (never Loop.ContainsPoint). Every truly contained probe must be in RectBound (computed lat/lng), CapBound and CellUnionBound. Non-trivial = a contained probe lies within 1e-15 rad of an edge interior and the rectangle is not full.",
		Quick: 24000, Thorough: 400000}, genLoopCase, checkLoopBounds)
}
