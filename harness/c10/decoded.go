package c10

import (
	"bytes"
	"fmt"
	"math"

	"github.com/golang/geo/r3"
	"github.com/golang/geo/s2"
	"pgregory.net/rapid"

	"verifharness/internal/ev"
	"verifharness/internal/exact"
	"verifharness/internal/gen"
)

// decodedCase: a star loop around a point near a pole, large enough to
// contain the pole, with vertices snapped to level-30 cell centres (so that
// Polygon.Encode chooses the compressed format, whose loops of fewer than 64
// vertices do not store their bound: the decoder recomputes it).
type decodedCase struct {
	V      []gen.P
	Inside gen.P
	South  bool
}

func genDecoded(t *rapid.T) decodedCase {
	south := rapid.Bool().Draw(t, "south")
	z := 1.0
	if south {
		z = -1
	}
	pole := s2.Point{Vector: r3.Vector{X: 0, Y: 0, Z: z}}
	// centre within 20 degrees of the pole; star radii 25..60 degrees: contains the pole
	off := rapid.Float64Range(0, 20*math.Pi/180).Draw(t, "off")
	az := rapid.Float64Range(0, 2*math.Pi).Draw(t, "az")
	c := gen.Fix(s2.Point{Vector: r3.Vector{X: math.Sin(off) * math.Cos(az), Y: math.Sin(off) * math.Sin(az), Z: z * math.Cos(off)}}, pole)
	n := rapid.SampledFrom([]int{8, 20, 40, 63, 64, 65, 100}).Draw(t, "n")
	x := c.Ortho()
	y := c.Cross(x).Normalize()
	a0 := rapid.Float64Range(0, 2*math.Pi).Draw(t, "a0")
	var v []gen.P
	for i := 0; i < n; i++ {
		r := rapid.Float64Range(25*math.Pi/180, 60*math.Pi/180).Draw(t, "r")
		a := a0 + float64(i)*2*math.Pi/float64(n)
		d := x.Mul(math.Cos(a)).Add(y.Mul(math.Sin(a)))
		p := s2.Point{Vector: c.Mul(math.Cos(r)).Add(d.Mul(math.Sin(r))).Normalize()}
		v = append(v, gen.FromPt(s2.CellFromPoint(p).ID().Point())) // snap to the leaf cell centre
	}
	return decodedCase{V: v, Inside: gen.FromPt(c), South: south}
}

func checkDecoded(c decodedCase) ev.Outcome {
	o := ev.Outcome{}
	l := s2.LoopFromPoints(gen.Pts(c.V))
	if l.Validate() != nil {
		o.Skip = true
		return o
	}
	p := s2.PolygonFromLoops([]*s2.Loop{l})
	var buf bytes.Buffer
	if err := p.Encode(&buf); err != nil {
		o.Err = "Encode: " + err.Error()
		return o
	}
	format := buf.Bytes()[0]
	var q s2.Polygon
	if err := q.Decode(&buf); err != nil {
		o.Err = "Decode of the library's own encoding: " + err.Error()
		return o
	}
	o.Class = fmt.Sprintf("format=%d/n>=64=%v", format, len(c.V) >= 64)
	o.NonTrivial = format == 4
	z := 1.0
	if c.South {
		z = -1
	}
	pole := s2.Point{Vector: r3.Vector{X: 0, Y: 0, Z: z}}
	var chain []r3.Vector
	for _, v := range c.V {
		chain = append(chain, v.Pt().Vector)
	}
	probes := []s2.Point{pole, c.Inside.Pt()}
	for i := 0; i < len(c.V); i += 1 + len(c.V)/8 {
		probes = append(probes, c.V[i].Pt())
	}
	// points between the pole and the centre, poleward of many vertices
	for _, f := range []float64{0.25, 0.5, 0.75} {
		probes = append(probes, gen.Fix(s2.Interpolate(f, pole, c.Inside.Pt()), pole))
	}
	for i, pr := range probes {
		if !exact.ParityContains([][]r3.Vector{chain}, c.Inside.Pt().Vector, true, pr.Vector) {
			continue
		}
		ll := s2.LatLngFromPoint(pr)
		for name, r := range map[string]s2.Rect{"decoded Polygon.RectBound": q.RectBound(), "decoded Loop.RectBound": q.Loop(0).RectBound()} {
			if !r.ContainsLatLng(ll) {
				o.Err = fmt.Sprintf("probe %d %v is in the loop (exact parity) but not in the %s %v (format %d, %d vertices)", i, pr, name, r, format, len(c.V))
				return o
			}
		}
		if !q.CapBound().ContainsPoint(pr) {
			o.Err = fmt.Sprintf("probe %d %v is in the loop but not in the decoded polygon's CapBound", i, pr)
			return o
		}
		if !q.ContainsPoint(pr) && !isVertexOf(c.V, pr) {
			o.Err = fmt.Sprintf("probe %d %v is in the loop (exact parity) but the decoded polygon's ContainsPoint is false (format %d, %d vertices)", i, pr, format, len(c.V))
			return o
		}
	}
	// the decoded loop's bound for sub-regions (Loop.Contains rejects on it first):
	// a small loop about the centre, well inside the star (radius 5 of at least 25
	// degrees), is contained by the decoded loop and polygon as by the original
	inner := s2.RegularLoop(c.Inside.Pt(), 5*s2Degree, 8)
	ip := s2.PolygonFromLoops([]*s2.Loop{s2.RegularLoop(c.Inside.Pt(), 5*s2Degree, 8)})
	if !l.Contains(inner) {
		o.Skip = true // (never observed: the construction keeps 20 degrees of room)
		return o
	}
	if !q.Loop(0).Contains(inner) || !q.Contains(ip) || !q.Intersects(ip) {
		o.Err = fmt.Sprintf("the decoded loop / polygon does not contain / intersect a 5-degree loop about its centre that the original contains (Loop.Contains=%v Polygon.Contains=%v Intersects=%v; format %d, %d vertices)", q.Loop(0).Contains(inner), q.Contains(ip), q.Intersects(ip), format, len(c.V))
		return o
	}
	return o
}

const s2Degree = math.Pi / 180

func isVertexOf(v []gen.P, p s2.Point) bool {
	for _, q := range v {
		if q.Pt() == p {
			return true
		}
	}
	return false
}

func init() {
	ev.Define("decoded_polar_bounds", ev.Options{
		Rule:  "star loops of 8..100 vertices (mass on 63/64/65) around a point within 20 degrees of a pole, radii 25..60 degrees (they contain the pole), vertices snapped to leaf-cell centres so that the compressed polygon format is chosen; the polygon is encoded and decoded, and the DECODED value's RectBound (polygon and loop), CapBound and ContainsPoint must contain every probe that exact crossing parity puts inside (the pole, the centre, points between them, vertices). The decoded loop and polygon must also contain a 5-degree loop about the centre (the sub-region bound, which for 64 or more vertices is derived from the stored bound). Non-trivial: compressed format.",
		Quick: 8000, Thorough: 200000}, genDecoded, checkDecoded)
}
