package c10

import (
	"fmt"
	"math"

	"github.com/golang/geo/r3"
	"github.com/golang/geo/s1"
	"github.com/golang/geo/s2"
	"pgregory.net/rapid"

	"verifharness/internal/ev"
	"verifharness/internal/exact"
	"verifharness/internal/gen"
)

// ------------------------------------------------- C: bound for sub-regions

// subCase: a convex loop A and a loop B inside it by construction.
// Mode "subset": B's vertices are a subset of A's (B convex).
// Mode "rays":   B's vertices lie on the segments from A's interior point C to
// A's vertices (B star-shaped about C, every vertex inside convex A).
type subCase struct {
	C    gen.P
	A, B []gen.P
	Mode string
	Fam  string
}

func genSubCase(t *rapid.T) subCase {
	switch f := rapid.IntRange(0, 9).Draw(t, "fam"); {
	case f >= 7:
		return genLuneSub(t)
	case f == 6:
		return genHalfTurnSub(t)
	}
	cs := drawCircle(t, "ci", 40)
	c := cs.C.Pt()
	x, y := frame(c)
	n := len(cs.V)
	sc := subCase{C: cs.C, A: cs.V, Fam: "circle-" + cs.Fam}
	keep := make([]bool, n)
	kept := 0
	pk := rapid.SampledFrom([]float64{0.3, 0.6, 0.9}).Draw(t, "pkeep")
	for i := range keep {
		keep[i] = rapid.Float64Range(0, 1).Draw(t, "keep") < pk
		if keep[i] {
			kept++
		}
	}
	gapsOK := func() bool {
		// azimuth gaps between consecutive kept vertices all below 170°
		first, prev := -1, -1
		for i := 0; i < n; i++ {
			if !keep[i] {
				continue
			}
			if first < 0 {
				first = i
			} else if cs.Az[i]-cs.Az[prev] > 170*math.Pi/180 {
				return false
			}
			prev = i
		}
		return first >= 0 && cs.Az[first]+2*math.Pi-cs.Az[prev] < 170*math.Pi/180
	}
	mode := rapid.SampledFrom([]string{"subset", "subset", "rays", "rays", "same", "touch", "touch", "touch"}).Draw(t, "mode")
	if mode == "touch" {
		// B has a vertex w at the latitude extremum (or another point) of an edge
		// of A, pushed inside A by the fewest ulps that make it exactly interior:
		// the documented "diamond in a square" situation. The two endpoints of
		// that edge are replaced by points slightly inside on their rays.
		i := 0
		if rapid.Bool().Draw(t, "anyedge") {
			i = rapid.IntRange(0, n-1).Draw(t, "edge")
		}
		a, b := cs.V[i].Pt(), cs.V[(i+1)%n].Pt()
		sgn := 1.0
		if c.Z < 0 {
			sgn = -1
		}
		w, in := hpLatExtremum(a, b, sgn)
		if !in || rapid.IntRange(0, 4).Draw(t, "notext") == 0 {
			w = hpOnEdge(a, b, rapid.Float64Range(0.05, 0.95).Draw(t, "wf"))
		}
		A := vecs(cs.V)
		ok := false
		for k := 0; k <= 8 && !ok; k++ {
			cand := gen.Fix(s2.Point{Vector: w.Add(c.Sub(w.Vector).Mul(float64(k) * 1.2e-16)).Normalize()}, w)
			if insideConvex(A, cand.Vector) == 1 {
				w, ok = cand, true
			}
		}
		if ok && n >= 3 {
			si := rapid.SampledFrom([]float64{1 - 1e-12, 0.999, 0.9, 0.5}).Draw(t, "si")
			sj := rapid.SampledFrom([]float64{1 - 1e-12, 0.999, 0.9, 0.5}).Draw(t, "sj")
			sc.Mode = "rays"
			sc.Fam += "/touch"
			sc.B = append(sc.B, gen.FromPt(at(c, x, y, si*cs.R, cs.Az[i])), gen.FromPt(w), gen.FromPt(at(c, x, y, sj*cs.R, cs.Az[(i+1)%n])))
			for k := 2; k < n; k++ {
				sc.B = append(sc.B, cs.V[(i+k)%n])
			}
			return sc
		}
		mode = "rays"
	}
	if kept < 3 || (mode == "rays" && !gapsOK()) {
		for i := range keep {
			keep[i] = true
		}
		if mode == "subset" {
			mode = "rays"
		}
	}
	sc.Mode = mode
	switch mode {
	case "same":
		rot := rapid.IntRange(0, n-1).Draw(t, "rot")
		sc.B = append(append([]gen.P{}, cs.V[rot:]...), cs.V[:rot]...)
		sc.Mode = "subset"
	case "subset":
		for i := range keep {
			if keep[i] {
				sc.B = append(sc.B, cs.V[i])
			}
		}
	default:
		for i := range keep {
			if !keep[i] {
				continue
			}
			s := rapid.SampledFrom([]float64{1, 1, 1, 1 - 1e-15, 1 - 1e-12, 1 - 1e-9, 0.999999, 0.99, 0.9, 0.5}).Draw(t, "scale")
			if s == 1 {
				sc.B = append(sc.B, cs.V[i])
			} else {
				sc.B = append(sc.B, gen.FromPt(at(c, x, y, s*cs.R, cs.Az[i])))
			}
		}
	}
	return sc
}

// genLuneSub: A is the convex quad a, d0, b, p of luneLoop (b within δ of the
// antipode of a, as a diagonal); B is a triangle on three of its vertices or
// on a, b and an interior point, so B has the nearly antipodal pair as an edge.
func genLuneSub(t *rapid.T) subCase {
	var l gen.LoopCase
	for i := 0; ; i++ {
		l = luneLoop(t, fmt.Sprintf("lu%d", i))
		if len(l.V) == 4 || i > 6 {
			break
		}
	}
	sc := subCase{C: l.Inside, A: l.V, Mode: "subset", Fam: "lune"}
	if len(l.V) != 4 {
		sc.B = l.V
		return sc
	}
	switch rapid.IntRange(0, 2).Draw(t, "bsel") {
	case 0:
		sc.B = []gen.P{l.V[0], l.V[2], l.V[3]} // a, b, p
	case 1:
		sc.B = []gen.P{l.V[0], l.V[1], l.V[2]} // a, d0, b
	default:
		sc.B = []gen.P{l.V[0], l.V[2], l.Inside} // a, b, interior point (left of a→b)
		sc.Mode = "triangle"
	}
	return sc
}

// genHalfTurnSub: A is a convex quad p1, p0, p2, p3 that does not contain the
// pole but spans a few ulps less than 180 degrees of longitude: p1 and p2 lie
// on one parallel, k ulps short of half a turn apart, p0 between them on a
// lower parallel, p3 between the pole and the place where the chord p2-p1 passes
// the pole. No edge of A spans the near-half-turn range, but the edge p2-p1 of
// the triangle B = p1, p0, p2 does: B's longitude bound may be widened to full
// by the bounder, and the sub-region expansion of A has to follow.
func genHalfTurnSub(t *rapid.T) subCase {
	south := rapid.Bool().Draw(t, "south")
	lat := rapid.SampledFrom([]float64{1e-3, 0.05, 0.3, 1, 1.4}).Draw(t, "lat")
	k := float64(rapid.IntRange(0, 12).Draw(t, "k"))
	if rapid.IntRange(0, 3).Draw(t, "kbig") == 0 {
		k = math.Exp(rapid.Float64Range(0, math.Log(1e6)).Draw(t, "kl"))
	}
	alpha := 0.0
	if rapid.Bool().Draw(t, "rot") {
		alpha = rapid.Float64Range(-math.Pi, math.Pi).Draw(t, "alpha")
	}
	eta := k * 0x1p-52
	ll := func(la, lo float64) s2.Point {
		if south {
			la = -la
		}
		return s2.PointFromLatLng(s2.LatLng{Lat: s1.Angle(la), Lng: s1.Angle(math.Remainder(lo+alpha, 2*math.Pi))})
	}
	p1 := ll(lat, -math.Pi/2)
	p2 := ll(lat, math.Pi/2-eta)
	p0 := ll(lat-rapid.SampledFrom([]float64{1e-3, 0.1, 0.5}).Draw(t, "dlat"), rapid.Float64Range(-0.5, 0.5).Draw(t, "lng0"))
	// the chord p2-p1 passes the pole at colatitude ~ tan(colat)*sin(eta/2)
	pass := math.Tan(math.Pi/2-lat) * math.Sin(eta/2)
	c3 := pass * rapid.Float64Range(0.05, 0.95).Draw(t, "c3")
	if pass == 0 || rapid.IntRange(0, 4).Draw(t, "far3") == 0 {
		c3 = rapid.SampledFrom([]float64{1e-15, 1e-12, 1e-6}).Draw(t, "c3abs")
	}
	p3 := ll(math.Pi/2-c3, 0)
	v := []s2.Point{p1, p0, p2, p3}
	if south {
		v = []s2.Point{p3, p2, p0, p1}
	}
	inside := gen.Fix(s2.Point{Vector: p1.Add(p2.Vector).Add(p0.Vector).Normalize()}, p0)
	sc := subCase{C: gen.FromPt(inside), A: gen.FromPts(v), Mode: "subset", Fam: "halfturn"}
	if south {
		sc.B = gen.FromPts([]s2.Point{p2, p0, p1})
	} else {
		sc.B = gen.FromPts([]s2.Point{p1, p0, p2})
	}
	return sc
}

func indexOfP(v []gen.P, p gen.P) int {
	for i, q := range v {
		if q == p {
			return i
		}
	}
	return -1
}

func checkSubregion(c subCase) ev.Outcome {
	o := ev.Outcome{}
	if len(c.A) < 3 || len(c.B) < 3 || !allUnit(c.A) || !allUnit(c.B) {
		o.Skip = true
		return o
	}
	A, B := vecs(c.A), vecs(c.B)
	cen := c.C.Pt().Vector
	// A: exactly convex, C strictly inside
	for i := range A {
		if detSign(A[i], A[(i+1)%len(A)], A[(i+2)%len(A)]) <= 0 {
			o.Skip = true
			count(&o, "skip_A_not_exactly_convex", 1)
			return o
		}
	}
	if insideConvex(A, cen) != 1 {
		o.Skip = true
		return o
	}
	// B's vertices: shared with A or strictly inside A
	shared := 0
	for j := range B {
		if indexOfP(c.A, c.B[j]) >= 0 {
			shared++
			continue
		}
		if insideConvex(A, B[j]) != 1 {
			o.Skip = true
			count(&o, "skip_B_vertex_not_strictly_inside", 1)
			return o
		}
	}
	// B valid: convex (subset/triangle) or star-shaped about C (rays)
	for j := range B {
		a, b := B[j], B[(j+1)%len(B)]
		if a == b || a == b.Mul(-1) {
			o.Skip = true
			return o
		}
		switch c.Mode {
		case "rays":
			if detSign(cen, a, b) <= 0 {
				o.Skip = true
				count(&o, "skip_B_not_star", 1)
				return o
			}
		default:
			if detSign(a, b, B[(j+2)%len(B)]) <= 0 {
				o.Skip = true
				count(&o, "skip_B_not_convex", 1)
				return o
			}
		}
	}
	la, lb := s2.LoopFromPoints(gen.Pts(c.A)), s2.LoopFromPoints(gen.Pts(c.B))
	if la.Validate() != nil || lb.Validate() != nil {
		o.Skip = true
		return o
	}
	ra, rb := la.RectBound(), lb.RectBound()
	for _, r := range []s2.Rect{ra, rb} {
		if math.IsNaN(r.Lat.Lo) || math.IsNaN(r.Lat.Hi) || math.IsNaN(r.Lng.Lo) || math.IsNaN(r.Lng.Hi) {
			o.Err = fmt.Sprintf("RectBound of a valid loop has a NaN coordinate: A %v %v, B %v %v", ra.Lat, ra.Lng, rb.Lat, rb.Lng)
			o.Finding = "rect-bound-nan"
			return o
		}
	}
	ex := s2.ExpandForSubregions(ra)
	poleIn := insideConvex(A, r3.Vector{Z: 1}) >= 0 || insideConvex(A, r3.Vector{Z: -1}) >= 0
	how := "plain"
	switch {
	case poleIn:
		how = "A-has-pole(excluded by the documentation)"
	case ex.IsFull() && !ra.IsFull():
		how = "expanded-to-full"
	case ex.Lng.IsFull() && !ra.Lng.IsFull():
		how = "lng-expanded"
	case !ra.Contains(rb):
		how = "lat-expansion-needed"
	}
	o.Class = fmt.Sprintf("%s/%s/%s", c.Fam, c.Mode, how)
	if poleIn {
		return o
	}
	o.NonTrivial = how != "plain"
	if !ex.Contains(rb) {
		o.Err = fmt.Sprintf("B inside A by construction (%d of %d vertices shared) but ExpandForSubregions(A.RectBound())=%v does not contain B.RectBound()=%v (A.RectBound()=%v; lat excess lo %.3g eps hi %.3g eps)",
			shared, len(B), ex, rb, ra, (ex.Lat.Lo-rb.Lat.Lo)/eps, (rb.Lat.Hi-ex.Lat.Hi)/eps)
		o.Finding = "subregion-bound"
		o.NonTrivial = true
		return o
	}
	// how much of the 9-eps latitude expansion was needed
	if how == "lat-expansion-needed" && !ra.Lat.ContainsInterval(rb.Lat) {
		need := math.Max(ra.Lat.Lo-rb.Lat.Lo, rb.Lat.Hi-ra.Lat.Hi)
		ratio(&o, "subregion_lat_expansion_needed/9eps", need/(9*eps))
	}
	// the consumer of the expanded bound: Loop.Contains must not reject B
	if !la.Contains(lb) {
		o.Err = fmt.Sprintf("B inside A by construction (%d of %d vertices shared, mode %s) but A.Contains(B) is false (A.RectBound()=%v B.RectBound()=%v)", shared, len(B), c.Mode, ra, rb)
		o.Finding = "subregion-loop-contains"
		return o
	}
	return o
}

// --------------------------------------------------------- H: convex hull

type hullItem struct {
	Type string // points | polyline | loop | polygon
	V    [][]gen.P
}

type hullCase struct {
	Items []hullItem
}

func hullPoints(t *rapid.T, label string, c s2.Point, spread float64) []gen.P {
	x, y := frame(c)
	var ps []s2.Point
	switch rapid.IntRange(0, 6).Draw(t, label+".pf") {
	case 0:
		// degenerate relatives: duplicates, near-duplicates, same direction, ulp noise
		ps = gen.Tuple(t, label+".tu", rapid.IntRange(1, 12).Draw(t, label+".n"))
	case 1:
		// all on one great circle through c (exactly coplanar families)
		ps = gen.CoplanarTuple(t, label+".co", rapid.IntRange(2, 10).Draw(t, label+".n"))
	case 2:
		// on a circle about c: every point is a hull vertex; plus the centre and mid-chord points
		n := rapid.IntRange(3, 40).Draw(t, label+".n")
		az0 := rapid.Float64Range(0, 2*math.Pi).Draw(t, label+".az0")
		for i := 0; i < n; i++ {
			ps = append(ps, at(c, x, y, spread, az0+float64(i)*2*math.Pi/float64(n)))
		}
		ps = append(ps, c)
		for i := 0; i+1 < n && i < 6; i++ {
			ps = append(ps, gen.Perturb(t, label+".mid", hpOnEdge(ps[i], ps[i+1], rapid.Float64Range(0, 1).Draw(t, label+".f")), 2))
		}
	case 3:
		// a cell-vertex grid: many exactly shared coordinates and near-collinear triples
		lvl := rapid.IntRange(2, 24).Draw(t, label+".lvl")
		id := s2.CellFromPoint(c).ID().Parent(lvl)
		for _, nb := range append(id.AllNeighbors(lvl), id) {
			cell := s2.CellFromCellID(nb)
			for k := 0; k < 4; k++ {
				ps = append(ps, cell.Vertex(k))
			}
			ps = append(ps, nb.Point())
		}
	case 4:
		// one or two points
		ps = append(ps, at(c, x, y, spread*rapid.Float64Range(0, 1).Draw(t, label+".r"), rapid.Float64Range(0, 6.3).Draw(t, label+".az")))
		if rapid.Bool().Draw(t, label+".two") {
			ps = append(ps, gen.Related(t, label+".rel", ps))
		}
	default:
		n := rapid.IntRange(3, 60).Draw(t, label+".n")
		for i := 0; i < n; i++ {
			ps = append(ps, at(c, x, y, spread*math.Sqrt(rapid.Float64Range(0, 1).Draw(t, label+".r")), rapid.Float64Range(0, 2*math.Pi).Draw(t, label+".az")))
		}
		// points on chords between earlier points (inside the hull, near edges)
		for i := 0; i < 6; i++ {
			a := ps[rapid.IntRange(0, n-1).Draw(t, label+".ca")]
			b := ps[rapid.IntRange(0, n-1).Draw(t, label+".cb")]
			if a != b {
				ps = append(ps, gen.Perturb(t, label+".cp", hpOnEdge(a, b, rapid.Float64Range(0, 1).Draw(t, label+".cf")), 2))
			}
		}
	}
	out := make([]gen.P, 0, len(ps))
	for _, p := range ps {
		out = append(out, gen.FromPt(gen.Fix(p, c)))
	}
	return out
}

func genHullCase(t *rapid.T) hullCase {
	c := gen.SpecialCenter(t, "c")
	spread := math.Exp(rapid.Float64Range(math.Log(1e-7), math.Log(1.5)).Draw(t, "spread"))
	if rapid.IntRange(0, 9).Draw(t, "hemi") == 0 {
		// geometry spanning close to a hemisphere: the full-loop switch
		spread = math.Pi/2 - rapid.SampledFrom([]float64{0, 1e-16, 1e-15, 1e-12, 1e-6, 1e-3, 0.05, -1e-3}).Draw(t, "hemioff")
	}
	n := rapid.IntRange(1, 3).Draw(t, "items")
	var hc hullCase
	x, y := frame(c)
	for i := 0; i < n; i++ {
		l := fmt.Sprintf("it%d", i)
		lc := c
		if i > 0 {
			lc = at(c, x, y, spread*rapid.Float64Range(0, 1).Draw(t, l+".off"), rapid.Float64Range(0, 2*math.Pi).Draw(t, l+".offaz"))
		}
		switch rapid.SampledFrom([]string{"points", "points", "points", "polyline", "loop", "polygon"}).Draw(t, l+".type") {
		case "points":
			hc.Items = append(hc.Items, hullItem{Type: "points", V: [][]gen.P{hullPoints(t, l, lc, spread)}})
		case "polyline":
			v := hullPoints(t, l, lc, spread)
			// adjacent vertices of a polyline must differ and not be antipodal
			var w []gen.P
			for _, p := range v {
				if len(w) > 0 && (w[len(w)-1] == p || w[len(w)-1].Pt().Vector == p.Pt().Mul(-1)) {
					continue
				}
				w = append(w, p)
			}
			hc.Items = append(hc.Items, hullItem{Type: "polyline", V: [][]gen.P{w}})
		case "loop":
			lp := gen.StarLoopAt(t, l, lc, 40, math.Min(spread, 1.39))
			hc.Items = append(hc.Items, hullItem{Type: "loop", V: [][]gen.P{lp.V}})
		default:
			sp := gen.DrawShape(t, l, lc, math.Min(spread, 1.2), 40)
			for sp.Type != "polygon" {
				sp = gen.ShapeSpec{Type: "polygon", Loops: [][]gen.P{gen.StarLoopAt(t, l+".pl", lc, 30, math.Min(spread, 1.39)).V}}
			}
			if len(sp.Loops) >= 2 && rapid.IntRange(0, 2).Draw(t, l+".reuse") == 0 {
				// the polygon added to the query is built from a loop OBJECT that
				// was a hole of another polygon before (its nesting depth must not
				// leak into the new single-loop polygon)
				hc.Items = append(hc.Items, hullItem{Type: "reusedhole", V: sp.Loops[:2]})
			} else {
				hc.Items = append(hc.Items, hullItem{Type: "polygon", V: sp.Loops})
			}
		}
	}
	return hc
}

func hasAntipodalPair(pts []s2.Point) bool {
	if len(pts) > 400 {
		return false
	}
	for i := range pts {
		for j := i + 1; j < len(pts); j++ {
			if pts[i].Add(pts[j].Vector).Norm() <= 1e-15 {
				return true
			}
		}
	}
	return false
}

// hasParallelPair: two distinct input points whose vectors are exactly
// parallel and point the same way (the same point of the sphere stored with
// two different lengths).
func hasParallelPair(pts []s2.Point) bool {
	if len(pts) > 400 {
		return false
	}
	for i := range pts {
		for j := i + 1; j < len(pts); j++ {
			a, b := pts[i], pts[j]
			if a == b || a.Sub(b.Vector).Norm() > 1e-14 {
				continue
			}
			if exact.IsZero(exact.Cross(exact.IntVec(a.Vector), exact.IntVec(b.Vector))) {
				return true
			}
		}
	}
	return false
}

func sameCyclic(a, b []s2.Point) bool {
	if len(a) != len(b) {
		return false
	}
	if len(a) == 0 {
		return true
	}
	for s := range b {
		if b[s] != a[0] {
			continue
		}
		ok := true
		for i := range a {
			if a[i] != b[(s+i)%len(b)] {
				ok = false
				break
			}
		}
		if ok {
			return true
		}
	}
	return false
}

func checkHull(c hullCase) (o ev.Outcome) {
	q := s2.NewConvexHullQuery()
	var pts []s2.Point
	var loops []*s2.Loop
	types := ""
	for _, it := range c.Items {
		for _, v := range it.V {
			if !allUnit(v) {
				o.Skip = true
				return o
			}
		}
		types += it.Type[:3] + "+"
		switch it.Type {
		case "points":
			for _, p := range it.V[0] {
				q.AddPoint(p.Pt())
				pts = append(pts, p.Pt())
			}
		case "polyline":
			pl := s2.Polyline(gen.Pts(it.V[0]))
			q.AddPolyline(&pl)
			pts = append(pts, gen.Pts(it.V[0])...)
		case "loop":
			l := s2.LoopFromPoints(gen.Pts(it.V[0]))
			if l.Validate() != nil {
				o.Skip = true
				return o
			}
			q.AddLoop(l)
			loops = append(loops, l)
			pts = append(pts, gen.Pts(it.V[0])...)
		case "reusedhole":
			if len(it.V) < 2 {
				o.Skip = true
				return o
			}
			outer := s2.PolygonFromLoops([]*s2.Loop{s2.LoopFromPoints(gen.Pts(it.V[0])), s2.LoopFromPoints(gen.Pts(it.V[1]))})
			var hole *s2.Loop
			for k := 0; k < outer.NumLoops(); k++ {
				if outer.Loop(k).IsHole() {
					hole = outer.Loop(k)
				}
			}
			if hole == nil || outer.Validate() != nil {
				o.Skip = true
				return o
			}
			pg := s2.PolygonFromLoops([]*s2.Loop{hole})
			q.AddPolygon(pg)
			loops = append(loops, s2.LoopFromPoints(hole.Vertices()))
			pts = append(pts, hole.Vertices()...)
		case "polygon":
			var ls []*s2.Loop
			for _, v := range it.V {
				ls = append(ls, s2.LoopFromPoints(gen.Pts(v)))
				pts = append(pts, gen.Pts(v)...)
			}
			pg := s2.PolygonFromLoops(ls)
			if pg.Validate() != nil {
				o.Skip = true
				return o
			}
			q.AddPolygon(pg)
			for _, v := range it.V {
				loops = append(loops, s2.LoopFromPoints(gen.Pts(v)))
			}
		}
	}
	distinct := map[s2.Point]bool{}
	for _, p := range pts {
		distinct[p] = true
	}
	closePair := false
	if len(distinct) == 2 {
		var two []s2.Point
		for p := range distinct {
			two = append(two, p)
		}
		closePair = two[0].Sub(two[1].Vector).Norm() <= 1e-15 || two[0].Add(two[1].Vector).Norm() <= 1e-15
	}
	var hull *s2.Loop
	if msg := func() (msg string) {
		defer func() {
			if r := recover(); r != nil {
				msg = fmt.Sprint(r)
			}
		}()
		hull = q.ConvexHull()
		return ""
	}(); msg != "" {
		o.Err = fmt.Sprintf("ConvexHull panics (%d distinct input points): %s", len(distinct), msg)
		o.Finding = "hull-panic"
		if closePair {
			o.Err += " (two distinct input points within 1e-15 of identical or antipodal)"
			o.Finding = "hull-degenerate-pair"
		}
		return o
	}
	hv := hull.Vertices()
	// failures of any kind when the input's bounding cap is within 4e-15 of a
	// hemisphere share one narrow class (the full-loop switch has no slack)
	nearHemi := q.CapBound().Height() >= 1-4e-15
	defer func() {
		if o.Finding == "rect-bound-nan" || o.Finding == "bounder-long-edge-lat" {
			return
		}
		if hgt := q.CapBound().Height(); o.Err != "" && math.IsNaN(hgt) {
			o.Err += " [the input's bounding rectangle/cap has a NaN coordinate]"
			o.Finding = "rect-bound-nan"
			return
		}
		if o.Err != "" && closePair && o.Finding != "hull-degenerate-pair" {
			o.Err += " (two distinct input points within 1e-15 of identical or antipodal)"
			o.Finding = "hull-degenerate-pair"
		}
		if o.Err != "" && o.Finding != "hull-degenerate-pair" && hasParallelPair(pts) {
			o.Err += " (the input contains two distinct points with exactly the same direction, differing only in length)"
			o.Finding = "hull-parallel-pair"
			return
		}
		if o.Err != "" && nearHemi && o.Finding != "hull-degenerate-pair" {
			o.Err += fmt.Sprintf(" [input bounding cap height %.17g: within 4e-15 of a hemisphere]", q.CapBound().Height())
			o.Finding = "hull-near-hemisphere"
		}
	}()
	switch {
	case hull.IsFull():
		o.Class = types + "/full"
		return o
	case hull.IsEmpty():
		o.Class = types + "/empty"
		if len(pts) > 0 {
			o.Err = fmt.Sprintf("empty hull for %d input points", len(pts))
			o.Finding = "hull-empty"
		}
		return o
	}
	if err := hull.Validate(); err != nil {
		o.Err = fmt.Sprintf("hull loop (%d vertices) is not valid: %v", len(hv), err)
		o.Finding = "hull-invalid"
		if closePair {
			o.Err += " (two distinct input points within 1e-15 of identical or antipodal)"
			o.Finding = "hull-degenerate-pair"
		} else if hasAntipodalPair(pts) {
			o.Err += " (the input contains a pair of points within 1e-15 of antipodal)"
			o.Finding = "hull-antipodal-input"
		}
		return o
	}
	n := len(hv)
	H := make([]r3.Vector, n)
	for i, v := range hv {
		H[i] = v.Vector
	}
	kind := "hull"
	if len(distinct) == 1 {
		kind = "single-point"
	} else if len(distinct) == 2 {
		kind = "single-edge"
	}
	// convex: every consecutive triple counter-clockwise (exact orientation with
	// the documented symbolic tie-break), and no vertex strictly right of any edge
	for i := 0; i < n; i++ {
		if s := exact.Sign(H[i], H[(i+1)%n], H[(i+2)%n]); s <= 0 {
			o.Err = fmt.Sprintf("hull (%d vertices, %s) is not convex: vertices %d,%d,%d have exact orientation %d", n, kind, i, (i+1)%n, (i+2)%n, s)
			o.Finding = "hull-not-convex"
			return o
		}
	}
	if n <= 200 {
		for i := 0; i < n; i++ {
			for j := 0; j < n; j++ {
				if j == i || j == (i+1)%n {
					continue
				}
				if detSign(H[i], H[(i+1)%n], H[j]) < 0 {
					o.Err = fmt.Sprintf("hull (%d vertices) is not convex: vertex %d is strictly right of edge %d", n, j, i)
					o.Finding = "hull-not-convex"
					return o
				}
			}
		}
	}
	isHV := map[s2.Point]bool{}
	for _, v := range hv {
		isHV[v] = true
	}
	nearEdge, interior := 0, 0
	for i, p := range pts {
		if isHV[p] {
			continue
		}
		interior++
		// independent: p is not strictly outside any edge's half-space
		minDet := math.Inf(1)
		for k := 0; k < n; k++ {
			if detSign(H[k], H[(k+1)%n], p.Vector) < 0 {
				o.Err = fmt.Sprintf("input point %d %v is strictly outside hull edge %d (%v→%v) and is not a hull vertex (%d hull vertices, %s)", i, p.Vector, k, H[k], H[(k+1)%n], n, kind)
				o.Finding = "hull-misses-point"
				return o
			}
			if d := math.Abs(p.Dot(H[k].Cross(H[(k+1)%n]))); d < minDet {
				minDet = d
			}
		}
		if minDet < 1e-13 {
			nearEdge++
		}
		// as documented: contained by the hull or a vertex of it
		if !hull.ContainsPoint(p) {
			o.Err = fmt.Sprintf("input point %d %v is neither a hull vertex nor contained by the hull loop (%d hull vertices, %s; it is on the inner side of every edge)", i, p.Vector, n, kind)
			o.Finding = "hull-containspoint"
			// attribute to the hull loop's own rectangle when that is what rejects the point
			hb := hull.RectBound()
			switch m := rectHas(hb, p); {
			case math.IsNaN(hb.Lat.Lo) || math.IsNaN(hb.Lat.Hi):
				o.Err += fmt.Sprintf(" [the hull loop's RectBound has a NaN latitude: %v %v]", hb.Lat.Lo, hb.Lat.Hi)
				o.Finding = "rect-bound-nan"
			case m.latEx > 0 && hasLongEdge(H, true) && !nearHemi:
				o.Err += fmt.Sprintf(" [the hull loop's RectBound %v excludes the point and the loop has an edge longer than 2.6 rad: %v]", hb, m)
				o.Finding = "bounder-long-edge-lat"
			}
			return o
		}
	}
	// the hull of >= 3 distinct points uses only input points
	if len(distinct) >= 3 {
		for i, v := range hv {
			if !distinct[v] {
				o.Err = fmt.Sprintf("hull vertex %d %v is not an input point", i, v.Vector)
				o.Finding = "hull-foreign-vertex"
				return o
			}
		}
	}
	// computing it again (the query keeps its state) gives the same loop
	if h2 := q.ConvexHull(); !sameCyclic(hv, h2.Vertices()) {
		o.Err = fmt.Sprintf("second ConvexHull() call returns a different loop (%d vs %d vertices)", n, len(h2.Vertices()))
		o.Finding = "hull-not-idempotent"
		return o
	}
	// a query that was asked for its hull half-way through the input and then
	// given the rest ends with the same loop (the intermediate call must not
	// leave state behind)
	// a reused query: asked for its hull and cap while still empty, again after
	// the first half of the inputs, and then given the rest (each input through
	// the same Add method as before) it ends with the same loop and a cap that
	// holds every input point - earlier calls must not leave state behind
	{
		q2 := s2.NewConvexHullQuery()
		_ = q2.ConvexHull()
		_ = q2.CapBound()
		half := len(c.Items) / 2
		for k, it := range c.Items {
			if k == half && k > 0 {
				_ = q2.ConvexHull()
				_ = q2.CapBound()
			}
			switch it.Type {
			case "points":
				hp := len(it.V[0]) / 2
				for j, p := range it.V[0] {
					if j == hp && j > 0 {
						_ = q2.CapBound()
						_ = q2.ConvexHull()
					}
					q2.AddPoint(p.Pt())
				}
			case "polyline":
				pl := s2.Polyline(gen.Pts(it.V[0]))
				q2.AddPolyline(&pl)
			case "loop":
				q2.AddLoop(s2.LoopFromPoints(gen.Pts(it.V[0])))
			case "reusedhole":
				outer := s2.PolygonFromLoops([]*s2.Loop{s2.LoopFromPoints(gen.Pts(it.V[0])), s2.LoopFromPoints(gen.Pts(it.V[1]))})
				for k := 0; k < outer.NumLoops(); k++ {
					if outer.Loop(k).IsHole() {
						q2.AddPolygon(s2.PolygonFromLoops([]*s2.Loop{outer.Loop(k)}))
					}
				}
			case "polygon":
				var ls []*s2.Loop
				for _, v := range it.V {
					ls = append(ls, s2.LoopFromPoints(gen.Pts(v)))
				}
				q2.AddPolygon(s2.PolygonFromLoops(ls))
			}
		}
		if h3 := q2.ConvexHull(); !sameCyclic(hv, h3.Vertices()) {
			o.Err = fmt.Sprintf("the same inputs given to a query that had been asked for its hull / cap in between give a different hull (%d vs %d vertices)", n, len(h3.Vertices()))
			o.Finding = "hull-incremental"
			return o
		}
		if c1, c2 := q.CapBound(), q2.CapBound(); c1 != c2 {
			o.Err = fmt.Sprintf("the same inputs given to a query that had been asked for its hull / cap in between give a different CapBound (%v vs %v)", c1, c2)
			o.Finding = "hull-incremental"
			return o
		}
	}
	// input loops are contained as loops
	for i, l := range loops {
		if !hull.Contains(l) {
			o.Err = fmt.Sprintf("hull does not Contain input loop %d (%d vertices)", i, l.NumVertices())
			o.Finding = "hull-contains-loop"
			return o
		}
	}
	o.Class = fmt.Sprintf("%s/%s", types, kind)
	count(&o, "input_points_not_hull_vertices", interior)
	count(&o, "input_points_within_1e-13_of_a_hull_edge_plane", nearEdge)
	o.NonTrivial = kind == "hull" && nearEdge > 0
	return o
}

func init() {
	ev.Define("subregion_bound", ev.Options{
		Rule:  "A = exactly convex loop (vertices on a small circle, optionally grazing a pole within 0..0.02 rad with a vertex or an edge midpoint towards the pole, clustered vertices; or a convex lune-shaped quad whose diagonal joins points 2e-16..0.1 rad from antipodal; or a convex quad that leaves the pole out but spans 0..12 ulps (1 in 4: up to 1e6 ulps) less than 180 degrees of longitude without any edge of its own spanning that range, B being the triangle whose edge does); B inside A by construction and verified exactly (subset of A's vertices; vertices on the rays from an interior point to A's vertices at scale 1-1e-15..0.5; triangles on the nearly antipodal diagonal; A itself rotated). A containing a pole is excluded as documented (classified, not asserted). Assert ExpandForSubregions(A.RectBound()).Contains(B.RectBound()) and then A.Contains(B). Non-trivial = the expansion was needed (A's own bound does not contain B's) or it switched to full / full longitude.",
		Quick: 40000, Thorough: 1000000}, genSubCase, checkSubregion)
	ev.Define("convex_hull", ev.Options{
		Rule:  "1..3 inputs (point sets: degenerate relatives, exactly coplanar tuples, points on a circle plus centre and chord points, cell-vertex grids, 1-2 points, random discs with chord points; polylines; star loops; polygons with holes) within a spread of 1e-7..1.5 rad or within 0..0.05 of a hemisphere. Hull must be a valid loop, every consecutive triple exactly counter-clockwise and no vertex right of any edge; every input point is a hull vertex, or (exact half-space test) on the inner side of every edge and hull.ContainsPoint; hull vertices are input points; a second call gives the same loop; hull.Contains(each input loop). Non-trivial = a proper hull (>= 3 distinct inputs, not full) with an input point that is not a vertex but within 1e-13 of an edge plane.",
		Quick: 30000, Thorough: 600000}, genHullCase, checkHull)
}
