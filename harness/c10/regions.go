package c10

import (
	"fmt"
	"math"

	"github.com/golang/geo/r1"
	"github.com/golang/geo/r3"
	"github.com/golang/geo/s1"
	"github.com/golang/geo/s2"
	"pgregory.net/rapid"

	"verifharness/internal/ev"
	"verifharness/internal/exact"
	"verifharness/internal/gen"
	"verifharness/internal/hp"
)

// --------------------------------------------------- D: cells and cell unions

type cellCase struct {
	IDs    []uint64
	Norm   bool // normalize the union first
	Probes []gen.P
}

func specialCellID(t *rapid.T, label string) s2.CellID {
	level := rapid.IntRange(0, 30).Draw(t, label+".level")
	switch rapid.IntRange(0, 5).Draw(t, label+".sk") {
	case 0:
		// around a pole
		z := rapid.SampledFrom([]float64{1, -1}).Draw(t, label+".pole")
		p := s2.Point{Vector: r3.Vector{X: tinyCoord(t, label+".x"), Y: tinyCoord(t, label+".y"), Z: z}}
		id := s2.CellFromPoint(p).ID().Parent(level)
		if rapid.Bool().Draw(t, label+".nb") {
			nb := id.AllNeighbors(level)
			if len(nb) > 0 {
				id = nb[rapid.IntRange(0, len(nb)-1).Draw(t, label+".nbi")]
			}
		}
		return id
	case 1:
		// on the ±π seam
		lat := rapid.Float64Range(-1.55, 1.55).Draw(t, label+".lat")
		p := s2.Point{Vector: r3.Vector{X: -math.Cos(lat), Y: tinyCoord(t, label+".y"), Z: math.Sin(lat)}.Normalize()}
		id := s2.CellFromPoint(p).ID().Parent(level)
		if rapid.Bool().Draw(t, label+".nb") {
			nb := id.EdgeNeighbors()
			id = nb[rapid.IntRange(0, 3).Draw(t, label+".nbi")]
		}
		return id
	case 2:
		return s2.CellFromPoint(gen.Symmetric(t, label+".sym")).ID().Parent(level)
	default:
		return gen.CellID(t, label+".g")
	}
}

func genCellCase(t *rapid.T) cellCase {
	n := 1
	if rapid.Bool().Draw(t, "union") {
		n = rapid.IntRange(2, 12).Draw(t, "n")
	}
	ids := []s2.CellID{specialCellID(t, "c0")}
	for len(ids) < n {
		l := fmt.Sprintf("c%d", len(ids))
		base := ids[rapid.IntRange(0, len(ids)-1).Draw(t, l+".from")]
		var id s2.CellID
		switch rapid.IntRange(0, 5).Draw(t, l+".rel") {
		case 0:
			id = specialCellID(t, l)
		case 1:
			nb := base.EdgeNeighbors()
			id = nb[rapid.IntRange(0, 3).Draw(t, l+".k")]
		case 2:
			if !base.IsLeaf() {
				id = base.Children()[rapid.IntRange(0, 3).Draw(t, l+".k")]
			} else {
				id = base.Parent(29)
			}
		case 3:
			if base.Level() > 0 {
				id = base.Parent(rapid.IntRange(0, base.Level()-1).Draw(t, l+".pl"))
			} else {
				id = base.Next().Parent(0)
			}
		case 4:
			if base.Level() > 0 {
				id = base.Parent(base.Level() - 1).Children()[rapid.IntRange(0, 3).Draw(t, l+".k")]
			} else {
				id = s2.CellIDFromFace(rapid.IntRange(0, 5).Draw(t, l+".f"))
			}
		default:
			id = s2.CellIDFromFace(int(base.Face())).ChildBeginAtLevel(base.Level()).Advance(rapid.Int64Range(0, 1<<20).Draw(t, l+".adv"))
			if !id.IsValid() {
				id = base
			}
		}
		if id.IsValid() {
			ids = append(ids, id)
		}
	}
	cc := cellCase{Norm: rapid.Bool().Draw(t, "norm")}
	for _, id := range ids {
		cc.IDs = append(cc.IDs, uint64(id))
	}
	// probes per cell: vertices, points on edges (high precision, ±2 ulps), edge
	// midpoints (the latitude extremes of face cells), centre, near-vertex points
	for i, id := range ids {
		if i >= 4 {
			break
		}
		cell := s2.CellFromCellID(id)
		var v []gen.P
		for k := 0; k < 4; k++ {
			v = append(v, gen.FromPt(cell.Vertex(k)))
		}
		l := fmt.Sprintf("p%d", i)
		cc.Probes = append(cc.Probes, v...)
		cc.Probes = append(cc.Probes, gen.FromPt(id.Point()))
		cc.Probes = append(cc.Probes, extraProbes(t, l+".x", v, true, 8)...)
		cc.Probes = append(cc.Probes, gen.ProbePoints(t, l+".q", v, 6)...)
	}
	return cc
}

// inCellExact: p lies in the closed quadrilateral of the cell's four normalized
// vertices (the region Cell.RectBound documents): no exact determinant negative.
func inCellExact(cell s2.Cell, p s2.Point) (in, onBoundary bool) {
	var v [4]r3.Vector
	for k := 0; k < 4; k++ {
		v[k] = cell.Vertex(k).Vector
	}
	in = true
	for k := 0; k < 4; k++ {
		switch detSign(v[k], v[(k+1)&3], p.Vector) {
		case -1:
			return false, false
		case 0:
			onBoundary = true
		}
	}
	// the four half-spaces of a face cell also admit nothing else, but guard
	// against the antipodal cone for safety
	if p.Dot(cell.ID().Point().Vector) <= 0 {
		return false, false
	}
	return in, onBoundary
}

func checkCellBounds(c cellCase) ev.Outcome {
	o := ev.Outcome{}
	var ids []s2.CellID
	for _, u := range c.IDs {
		id := s2.CellID(u)
		if !id.IsValid() {
			o.Skip = true
			return o
		}
		ids = append(ids, id)
	}
	if len(ids) == 0 {
		o.Skip = true
		return o
	}
	cu := s2.CellUnion(append([]s2.CellID{}, ids...))
	if c.Norm {
		cu.Normalize()
	}
	ub := regionBounds(&cu)
	cells := make([]s2.Cell, len(ids))
	cb := make([]boundsOf, len(ids))
	minLevel, maxLevel := 30, 0
	for i, id := range ids {
		cells[i] = s2.CellFromCellID(id)
		cb[i] = regionBounds(cells[i])
		if id.Level() < minLevel {
			minLevel = id.Level()
		}
		if id.Level() > maxLevel {
			maxLevel = id.Level()
		}
	}
	lv := "lvl0"
	switch {
	case minLevel >= 25:
		lv = "lvl25-30"
	case minLevel >= 10:
		lv = "lvl10-24"
	case minLevel >= 1:
		lv = "lvl1-9"
	}
	o.Class = fmt.Sprintf("cells=%d/%s/%s", bucket(len(ids)), lv, rectShape(ub.rect))
	contained, boundary := 0, 0
	for i, pp := range c.Probes {
		p := pp.Pt()
		if !gen.Unit(p) {
			continue
		}
		inAny := false
		for k := range cells {
			in, onB := inCellExact(cells[k], p)
			if !in {
				continue
			}
			inAny = true
			if onB {
				boundary++
			}
			if !cb[k].check(p, "cell", &o) {
				o.Err = fmt.Sprintf("probe %d, cell %v (level %d, face %d): %s", i, ids[k], ids[k].Level(), ids[k].Face(), o.Err)
				o.NonTrivial = true
				return o
			}
			padUsed(&o, cb[k].rect, p)
		}
		if !inAny {
			continue
		}
		contained++
		if !ub.check(p, "cellunion", &o) {
			o.Err = fmt.Sprintf("probe %d, union of %d cells (normalized=%v): %s", i, len(ids), c.Norm, o.Err)
			o.NonTrivial = true
			return o
		}
	}
	count(&o, "contained_probes", contained)
	count(&o, "probes_exactly_on_a_cell_boundary", boundary)
	o.NonTrivial = boundary > 0
	return o
}

func bucket(n int) int {
	switch {
	case n <= 1:
		return 1
	case n <= 4:
		return 4
	}
	return 12
}

// ------------------------------------------------------------------ E: caps

type capCase struct {
	C      gen.P
	R2     float64 // squared chord radius
	Probes []gen.P
}

func genCapCase(t *rapid.T) capCase {
	var c s2.Point
	switch rapid.IntRange(0, 4).Draw(t, "ck") {
	case 0:
		z := rapid.SampledFrom([]float64{1, -1}).Draw(t, "pole")
		c = s2.Point{Vector: r3.Vector{X: tinyCoord(t, "cx"), Y: tinyCoord(t, "cy"), Z: z}}
	case 1:
		th := math.Exp(rapid.Float64Range(math.Log(1e-9), math.Log(1.5)).Draw(t, "cth"))
		lam := rapid.Float64Range(-math.Pi, math.Pi).Draw(t, "clam")
		z := rapid.SampledFrom([]float64{1, -1}).Draw(t, "pole")
		c = s2.Point{Vector: r3.Vector{X: math.Sin(th) * math.Cos(lam), Y: math.Sin(th) * math.Sin(lam), Z: z * math.Cos(th)}.Normalize()}
	default:
		c = gen.SpecialCenter(t, "c")
	}
	c = gen.Fix(c, s2.Point{Vector: r3.Vector{X: 1}})
	colat := math.Acos(math.Min(1, math.Abs(c.Z)))
	if math.Abs(c.Z) > 0.9 {
		colat = math.Asin(math.Min(1, math.Sqrt(c.X*c.X+c.Y*c.Y)))
	}
	var ang float64
	r2set := false
	var r2 float64
	switch rapid.IntRange(0, 6).Draw(t, "rk") {
	case 0:
		r2 = rapid.SampledFrom([]float64{0, 5e-324, 1e-300, 1e-30, 2, 4, 3.9999999999999996, 2.0000000000000004, 1.9999999999999998}).Draw(t, "r2c")
		r2set = true
	case 1:
		// boundary passes through / next to the near pole
		ang = colat + rapid.SampledFrom([]float64{0, 1e-16, 1e-15, 1e-12, 1e-9, 1e-6, 1e-3}).Draw(t, "poff")*rapid.SampledFrom([]float64{1, -1}).Draw(t, "poffs")
	case 2:
		// boundary passes next to the far pole
		ang = math.Pi - colat + rapid.SampledFrom([]float64{0, 1e-15, 1e-9, 1e-3}).Draw(t, "poff")*rapid.SampledFrom([]float64{1, -1}).Draw(t, "poffs")
	case 3:
		ang = math.Pi/2 + rapid.SampledFrom([]float64{0, 1e-15, 1e-9, 1e-3}).Draw(t, "hoff")*rapid.SampledFrom([]float64{1, -1}).Draw(t, "hoffs")
	case 4:
		ang = rapid.Float64Range(0, math.Pi).Draw(t, "ang")
	default:
		ang = math.Exp(rapid.Float64Range(math.Log(1e-10), math.Log(math.Pi)).Draw(t, "lang"))
	}
	if !r2set {
		ang = math.Max(0, math.Min(math.Pi, ang))
		s := 2 * math.Sin(ang/2)
		r2 = math.Min(4, s*s)
	}
	cc := capCase{C: gen.FromPt(c), R2: r2}
	a := 2 * math.Asin(math.Min(1, 0.5*math.Sqrt(r2)))
	x, y := frame(c)
	azN := 0.0
	if math.Abs(c.Z) < 1 {
		azN = azimuthOf(s2.Point{Vector: r3.Vector{Z: 1}}, x, y)
	}
	// azimuth (from north) of the points where the boundary is tangent to a meridian
	azT := math.Pi / 2
	if ta, tc := math.Tan(a), math.Tan(math.Pi/2-math.Asin(math.Min(1, math.Abs(c.Z)))); a < math.Pi/2 && math.Abs(ta) < math.Abs(tc) {
		azT = math.Acos(ta / tc)
	}
	for i := 0; i < 24; i++ {
		l := fmt.Sprintf("p%d", i)
		var az float64
		switch rapid.IntRange(0, 5).Draw(t, l+".k") {
		case 0:
			az = azN
		case 1:
			az = azN + math.Pi
		case 2, 3:
			az = azN + rapid.SampledFrom([]float64{1, -1}).Draw(t, l+".side")*(azT+rapid.Float64Range(-1, 1).Draw(t, l+".j")*math.Pow(10, rapid.Float64Range(-9, -1).Draw(t, l+".je")))
		default:
			az = rapid.Float64Range(0, 2*math.Pi).Draw(t, l+".az")
		}
		r := a
		switch rapid.IntRange(0, 4).Draw(t, l+".rk") {
		case 0:
			r = a * rapid.Float64Range(0, 1).Draw(t, l+".rf")
		case 1:
			r = a * (1 - math.Pow(10, rapid.Float64Range(-16, -3).Draw(t, l+".re")))
		}
		p := gen.Fix(at(c, x, y, r, az), c)
		p = gen.Perturb(t, l+".pp", p, 3)
		cc.Probes = append(cc.Probes, gen.FromPt(p))
	}
	cc.Probes = append(cc.Probes, cc.C, gen.P{0, 0, 1}, gen.P{0, 0, -1})
	return cc
}

func checkCapBounds(c capCase) ev.Outcome {
	o := ev.Outcome{}
	cen := c.C.Pt()
	if !gen.Unit(cen) || !(c.R2 >= 0 && c.R2 <= 4) {
		o.Skip = true
		return o
	}
	cp := s2.CapFromCenterChordAngle(cen, s1.ChordAngle(c.R2))
	rb := cp.RectBound()
	cu := cp.CellUnionBound()
	size := "tiny"
	switch {
	case c.R2 >= 4:
		size = "full"
	case c.R2 > 2:
		size = ">hemisphere"
	case c.R2 > 1e-4:
		size = "medium"
	case c.R2 == 0:
		size = "point"
	}
	o.Class = fmt.Sprintf("%s/%s", size, rectShape(rb))
	contained, onEdge := 0, 0
	for i, pp := range c.Probes {
		p := pp.Pt()
		if !gen.Unit(p) {
			continue
		}
		// contained both exactly and by the library's own test
		cmp := exact.CompareChord2(cen.Vector, p.Vector, c.R2)
		if cmp > 0 || !cp.ContainsPoint(p) {
			continue
		}
		contained++
		near := false
		if d2 := float64(s2.ChordAngleBetweenPoints(cen, p)); c.R2 > 0 && d2 >= c.R2*(1-8*eps)-4*eps*eps {
			near = true
			onEdge++
		}
		if m := rectHas(rb, p); m.miss {
			o.Err = fmt.Sprintf("probe %d: cap (centre %v, chord² %.17g) contains %v (exact comparison %d) but Cap.RectBound()=%v does not: %v", i, cen.Vector, c.R2, p.Vector, cmp, rb, m)
			o.Finding = "cap-rect-" + m.suffix()
			if c.R2 > 3.9 && m.suffix() == m.where {
				// beyond rounding level and the cap is within 0.32 rad of full: the
				// chord-to-angle conversion (asin near 1) loses up to ~1e-8 rad
				o.Finding = "cap-rect-nearly-full"
			}
			o.NonTrivial = true
			return o
		}
		if cl, _ := covers(cu, p); !cl {
			o.Err = fmt.Sprintf("probe %d: cap (centre %v, chord² %.17g) contains %v but Cap.CellUnionBound()=%v does not cover it", i, cen.Vector, c.R2, p.Vector, cu)
			o.Finding = "cap-cellunion"
			o.NonTrivial = near
			return o
		}
	}
	count(&o, "contained_probes", contained)
	count(&o, "contained_within_8eps_of_the_boundary", onEdge)
	o.NonTrivial = onEdge > 0 && !rb.IsFull()
	return o
}

// ------------------------------------------------------------ rect as region

type rectCase struct {
	Lat, Lng [2]float64
	Probes   [][2]float64 // lat, lng of probes
}

func genRectCase(t *rapid.T) rectCase {
	var rc rectCase
	lat0 := rapid.Float64Range(-math.Pi/2, math.Pi/2).Draw(t, "lat0")
	lat1 := rapid.Float64Range(-math.Pi/2, math.Pi/2).Draw(t, "lat1")
	switch rapid.IntRange(0, 5).Draw(t, "latk") {
	case 0:
		lat1 = math.Pi / 2
	case 1:
		lat0 = -math.Pi / 2
	case 2:
		lat1 = lat0 + math.Pow(10, rapid.Float64Range(-15, -1).Draw(t, "dlat"))
	case 3:
		lat1 = -lat0 + rapid.SampledFrom([]float64{0, 1e-16, -1e-16, 1e-9, -1e-9}).Draw(t, "sym")
	}
	if lat0 > lat1 {
		lat0, lat1 = lat1, lat0
	}
	lat1 = math.Min(lat1, math.Pi/2)
	lng0 := rapid.Float64Range(-math.Pi, math.Pi).Draw(t, "lng0")
	var span float64
	switch rapid.IntRange(0, 5).Draw(t, "lngk") {
	case 0:
		span = math.Pi + rapid.SampledFrom([]float64{0, 4e-16, -4e-16, 1e-15, -1e-15, 1e-9, -1e-9, 1e-3, -1e-3}).Draw(t, "spoff")
	case 1:
		span = math.Pow(10, rapid.Float64Range(-15, 0).Draw(t, "spe"))
	case 2:
		span = 2*math.Pi - math.Pow(10, rapid.Float64Range(-15, 0).Draw(t, "spe2"))
	default:
		span = rapid.Float64Range(0, 2*math.Pi).Draw(t, "span")
	}
	lng1 := math.Remainder(lng0+span, 2*math.Pi)
	if lng0 == -math.Pi {
		lng0 = math.Pi
	}
	if lng1 == -math.Pi {
		lng1 = math.Pi
	}
	if rapid.IntRange(0, 9).Draw(t, "fulllng") == 0 {
		lng0, lng1 = -math.Pi, math.Pi
	}
	rc.Lat = [2]float64{lat0, lat1}
	rc.Lng = [2]float64{lng0, lng1}
	r := s2.Rect{Lat: r1.Interval{Lo: lat0, Hi: lat1}, Lng: s1.Interval{Lo: lng0, Hi: lng1}}
	ln := r.Lng.Length()
	for i := 0; i < 24; i++ {
		l := fmt.Sprintf("p%d", i)
		fl := rapid.SampledFrom([]float64{0, 0, 1, 1, 0.5, -1}).Draw(t, l+".fl")
		if fl < 0 {
			fl = rapid.Float64Range(0, 1).Draw(t, l+".flr")
		}
		fg := rapid.SampledFrom([]float64{0, 0, 1, 1, 0.5, -1}).Draw(t, l+".fg")
		if fg < 0 {
			fg = rapid.Float64Range(0, 1).Draw(t, l+".fgr")
		}
		lat := lat0 + fl*(lat1-lat0)
		if fl == 1 {
			lat = lat1
		}
		lng := math.Remainder(lng0+fg*ln, 2*math.Pi)
		if fg == 1 {
			lng = lng1
		}
		rc.Probes = append(rc.Probes, [2]float64{lat, lng})
	}
	return rc
}

func checkRectBounds(c rectCase) ev.Outcome {
	o := ev.Outcome{}
	r := s2.Rect{Lat: r1.Interval{Lo: c.Lat[0], Hi: c.Lat[1]}, Lng: s1.Interval{Lo: c.Lng[0], Hi: c.Lng[1]}}
	if !r.IsValid() || r.IsEmpty() {
		o.Skip = true
		return o
	}
	cb := r.CapBound()
	cu := r.CellUnionBound()
	span := "lng<=pi"
	if r.Lng.Length() > math.Pi {
		span = "lng>pi"
	}
	if r.Lng.IsFull() {
		span = "lngfull"
	}
	o.Class = fmt.Sprintf("%s/%s", span, rectShape(r))
	contained, corner := 0, 0
	for i, ll := range c.Probes {
		if !(math.Abs(ll[0]) <= math.Pi/2 && math.Abs(ll[1]) <= math.Pi) {
			continue
		}
		p := fromLatLngRad(ll[0], ll[1])
		if !gen.Unit(p) {
			continue
		}
		if m := rectHas(r, p); m.miss { // the computed lat/lng of p is in the rectangle
			continue
		}
		contained++
		isCorner := (ll[0] == c.Lat[0] || ll[0] == c.Lat[1]) && (ll[1] == c.Lng[0] || ll[1] == c.Lng[1])
		if isCorner {
			corner++
		}
		if lib, ex := capHas(cb, p); !lib {
			o.Err = fmt.Sprintf("probe %d: rect %v contains the computed lat/lng of %v (lat %.17g lng %.17g, corner=%v) but Rect.CapBound() (centre %v height %.17g) does not contain it; exact chord test inside=%v",
				i, r, p.Vector, ll[0], ll[1], isCorner, cb.Center().Vector, cb.Height(), ex) + fmt.Sprintf(" (outside by %.3g eps)", capExcess(cb, p)/eps)
			o.Finding = "rect-cap"
			if cb.Center().Vector == (r3.Vector{Z: 1}) || cb.Center().Vector == (r3.Vector{Z: -1}) {
				o.Finding = "rect-cap-pole"
			}
			o.Finding += capSuffix(cb, p)
			o.NonTrivial = true
			return o
		}
		if cl, _ := covers(cu, p); !cl {
			o.Err = fmt.Sprintf("probe %d: rect %v contains %v but Rect.CellUnionBound() %v does not cover it", i, r, p.Vector, cu)
			o.Finding = "rect-cellunion"
			return o
		}
	}
	count(&o, "contained_probes", contained)
	count(&o, "contained_corners", corner)
	o.NonTrivial = corner > 0
	return o
}

// -------------------------------------------------------------- F: polylines

type lineCase struct {
	V      []gen.P
	Probes []gen.P // points on edges computed at high precision
}

func genLineCase(t *rapid.T) lineCase {
	var v []s2.Point
	switch rapid.SampledFrom([]int{0, 1, 2, 2, 3, 3, 4, 5}).Draw(t, "fam") {
	case 0, 1:
		// a single edge between related points: near-identical, near-antipodal, ulp noise
		a := gen.Base(t, "a")
		if rapid.IntRange(0, 3).Draw(t, "apole") == 0 {
			a = s2.Point{Vector: r3.Vector{X: tinyCoord(t, "ax"), Y: tinyCoord(t, "ay"), Z: rapid.SampledFrom([]float64{1, -1}).Draw(t, "az")}}
		}
		v = []s2.Point{a, gen.Related(t, "b", []s2.Point{a})}
	case 2:
		// an edge on (nearly) opposite meridians
		l := poleEdgeLoop(t, "pe")
		v = []s2.Point{l.V[0].Pt(), l.V[1].Pt()}
	case 3:
		// a near-antipodal edge
		l := luneLoop(t, "lu")
		v = []s2.Point{l.V[0].Pt(), l.V[len(l.V)-2].Pt()}
		if len(l.V) == 3 {
			v = []s2.Point{l.V[0].Pt(), l.V[1].Pt()}
		}
	case 4:
		// a chain winding around the sphere in longitude
		n := rapid.IntRange(3, 30).Draw(t, "n")
		lat := rapid.Float64Range(-1.5, 1.5).Draw(t, "lat")
		lng := rapid.Float64Range(-math.Pi, math.Pi).Draw(t, "lng")
		for i := 0; i < n; i++ {
			v = append(v, fromLatLngRad(lat, lng))
			lng = math.Remainder(lng+rapid.Float64Range(0.1, 3.1).Draw(t, "dlng"), 2*math.Pi)
			lat = math.Max(-1.57, math.Min(1.57, lat+rapid.Float64Range(-0.3, 0.3).Draw(t, "dlat")))
		}
	default:
		ps := gen.Tuple(t, "tu", rapid.IntRange(2, 12).Draw(t, "n"))
		v = ps
	}
	// drop repeated / antipodal neighbours (not valid polylines)
	var w []s2.Point
	for _, p := range v {
		p = gen.Fix(p, s2.Point{Vector: r3.Vector{X: 1}})
		if len(w) > 0 && (w[len(w)-1] == p || w[len(w)-1].Vector == p.Mul(-1)) {
			continue
		}
		w = append(w, p)
	}
	lc := lineCase{V: gen.FromPts(w)}
	for i := 0; i+1 < len(w) && i < 6; i++ {
		a, b := w[i], w[i+1]
		for _, sgn := range []float64{1, -1} {
			if q, in := hpLatExtremum(a, b, sgn); in {
				lc.Probes = append(lc.Probes, gen.FromPt(q))
			}
		}
		for j := 0; j < 4; j++ {
			f := rapid.Float64Range(0, 1).Draw(t, "f")
			if rapid.IntRange(0, 3).Draw(t, "mid") == 0 {
				f = 0.5 + rapid.Float64Range(-1, 1).Draw(t, "mj")*math.Pow(10, rapid.Float64Range(-17, -1).Draw(t, "me"))
			}
			lc.Probes = append(lc.Probes, gen.FromPt(hpOnEdge(a, b, f)))
		}
	}
	return lc
}

// edgeDistance: high-precision angular distance (≈ chord) from p to the polyline.
func edgeDistance(v []s2.Point, p s2.Point) float64 {
	best := math.Inf(1)
	P := hp.Vec(p.Vector)
	for i := 0; i+1 < len(v); i++ {
		d2, _ := hp.PointEdgeChord2(P, hp.Vec(v[i].Vector), hp.Vec(v[i+1].Vector))
		if d := math.Sqrt(hp.Float(d2)); d < best {
			best = d
		}
	}
	return best
}

func checkPolylineBounds(c lineCase) ev.Outcome {
	o := ev.Outcome{}
	if len(c.V) < 2 || !allUnit(c.V) {
		o.Skip = true
		return o
	}
	v := gen.Pts(c.V)
	pl := s2.Polyline(v)
	if pl.Validate() != nil {
		o.Skip = true
		return o
	}
	b := regionBounds(&pl)
	b.longEdge = hasLongEdge(vecs(c.V), false)
	minDot := 1.0
	for i := 0; i+1 < len(v); i++ {
		if d := v[i].Dot(v[i+1].Vector); d < minDot {
			minDot = d
		}
	}
	kind := "edges"
	if minDot < -1+1e-12 {
		kind = "near-antipodal-edge"
	}
	o.Class = fmt.Sprintf("n=%d/%s/%s", bucket(len(v)-1), kind, rectShape(b.rect))
	// vertices belong to the polyline exactly
	for i, p := range v {
		if !b.check(p, "polyline-vertex", &o) {
			o.Err = fmt.Sprintf("vertex %d of %d: %s", i, len(v), o.Err)
			return o
		}
	}
	// points on edges: within their own (measured) distance from the exact edge plus 1 eps
	on := 0
	for i, pp := range c.Probes {
		p := pp.Pt()
		if !gen.Unit(p) {
			continue
		}
		d := edgeDistance(v, p)
		if d > 2.5e-16 {
			continue
		}
		on++
		m := rectHas(b.rect, p)
		tolLat := d + eps
		if m.latEx > tolLat {
			o.Err = fmt.Sprintf("probe %d: %v is %.3g rad from the polyline but its latitude is outside RectBound %v by %.3g eps (allowed: distance + 1 eps)", i, p.Vector, d, b.rect, m.latEx/eps)
			o.Finding = "polyline-rect-lat"
			if b.longEdge {
				o.Finding = "bounder-long-edge-lat"
			}
			o.NonTrivial = true
			return o
		}
		ratio(&o, "edge_point_lat_excess/(dist+1eps)", m.latEx/tolLat)
		cl := math.Sqrt(p.X*p.X + p.Y*p.Y)
		if cl > 1e-6 {
			tolLng := (d+eps)/cl + eps
			if m.lngEx > tolLng {
				o.Err = fmt.Sprintf("probe %d: %v is %.3g rad from the polyline but its longitude is outside RectBound %v by %.3g eps (allowed %.3g eps)", i, p.Vector, d, b.rect, m.lngEx/eps, tolLng/eps)
				o.Finding = "polyline-rect-lng"
				o.NonTrivial = true
				return o
			}
		}
		if !m.miss {
			// the point is in the rectangle, so it must be in the cap and cell-union bounds derived from it
			if lib, ex := capHas(b.cap, p); !lib {
				o.Err = fmt.Sprintf("probe %d: %v on the polyline is in RectBound %v but not in CapBound (centre %v height %.17g); exact inside=%v", i, p.Vector, b.rect, b.cap.Center().Vector, b.cap.Height(), ex)
				o.Finding = "polyline-cap" + capSuffix(b.cap, p)
				return o
			}
			if cl, _ := covers(b.cu, p); !cl {
				o.Err = fmt.Sprintf("probe %d: %v on the polyline is not covered by CellUnionBound %v", i, p.Vector, b.cu)
				o.Finding = "polyline-cellunion"
				return o
			}
		}
	}
	count(&o, "on_edge_probes", on)
	o.NonTrivial = on > 0 && !b.rect.IsFull()
	return o
}

// --------------------------------------------------------------- G: polygons

type polygonCase struct {
	Loops       [][]gen.P
	Known       gen.P
	KnownInside bool
	Kind        string
	Probes      []gen.P
	// ViaInvert: the two-shell polygon A ∪ B is obtained as the complement of
	// (sphere minus A) with hole B: PolygonFromLoops({reversed A, B}) then Invert()
	ViaInvert bool
}

func genPolygonCase(t *rapid.T) polygonCase {
	var pc polygonCase
	switch rapid.IntRange(0, 3).Draw(t, "fam") {
	case 0, 1:
		rp := gen.DrawRings(t, "rp", 4, 40)
		pc.Loops = rp.Rings
		pc.Known = rp.Center
		pc.KnownInside = len(rp.Rings)%2 == 1
		pc.Kind = fmt.Sprintf("rings=%d", len(rp.Rings))
	case 2:
		// two disjoint shells
		c1 := gen.SpecialCenter(t, "c1")
		x, y := frame(c1)
		r1 := math.Exp(rapid.Float64Range(math.Log(1e-4), math.Log(0.6)).Draw(t, "r1"))
		r2 := math.Exp(rapid.Float64Range(math.Log(1e-4), math.Log(0.6)).Draw(t, "r2"))
		d := (r1 + r2) * rapid.Float64Range(1.05, 2).Draw(t, "sep")
		c2 := at(c1, x, y, d, rapid.Float64Range(0, 2*math.Pi).Draw(t, "az"))
		l1 := gen.StarLoopAt(t, "l1", c1, 30, r1)
		l2 := gen.StarLoopAt(t, "l2", c2, 30, r2)
		pc.Loops = [][]gen.P{l1.V, l2.V}
		pc.Known = l1.Inside
		pc.KnownInside = true
		pc.Kind = "two-shells"
		if rapid.Bool().Draw(t, "viainvert") {
			pc.ViaInvert, pc.Kind = true, "two-shells-via-invert"
		}
	default:
		// a single pole-related loop as a polygon
		var l gen.LoopCase
		if rapid.Bool().Draw(t, "pv") {
			l = poleVertexLoop(t, "pv")
		} else {
			l = poleEdgeLoop(t, "pe")
		}
		pc.Loops = [][]gen.P{l.V}
		pc.Known = l.Inside
		pc.KnownInside = true
		pc.Kind = l.Kind
	}
	var all []gen.P
	for _, l := range pc.Loops {
		all = append(all, l...)
	}
	pc.Probes = gen.ProbePoints(t, "q", all, 12)
	for i, l := range pc.Loops {
		if i < 3 {
			pc.Probes = append(pc.Probes, extraProbes(t, fmt.Sprintf("x%d", i), l, true, 6)...)
		}
	}
	pc.Probes = append(pc.Probes, pc.Known)
	return pc
}

func checkPolygonBounds(c polygonCase) ev.Outcome {
	o := ev.Outcome{}
	var ls []*s2.Loop
	var chains [][]r3.Vector
	for _, l := range c.Loops {
		if len(l) < 3 || !allUnit(l) {
			o.Skip = true
			return o
		}
		ls = append(ls, s2.LoopFromPoints(gen.Pts(l)))
		chains = append(chains, vecs(l))
	}
	if c.ViaInvert {
		if len(c.Loops) != 2 {
			o.Skip = true
			return o
		}
		pts := gen.Pts(c.Loops[0])
		for i, j := 0, len(pts)-1; i < j; i, j = i+1, j-1 {
			pts[i], pts[j] = pts[j], pts[i]
		}
		ls[0] = s2.LoopFromPoints(pts)
	}
	pg := s2.PolygonFromLoops(ls)
	if pg.Validate() != nil {
		o.Skip = true
		return o
	}
	if c.ViaInvert {
		pg.Invert()
		if pg.Validate() != nil {
			o.Err = fmt.Sprintf("Invert() of a valid polygon (complement of one shell, with a hole) is not valid: %v", pg.Validate())
			return o
		}
	}
	b := regionBounds(pg)
	for _, ch := range chains {
		b.longEdge = b.longEdge || hasLongEdge(ch, true)
	}
	known := c.Known.Pt()
	o.Class = fmt.Sprintf("%s/%s", c.Kind, rectShape(b.rect))
	contained, near := 0, 0
	for i, pp := range c.Probes {
		p := pp.Pt()
		if !gen.Unit(p) || antipodalish(known, p) {
			continue
		}
		if !exact.ParityContains(chains, known.Vector, c.KnownInside, p.Vector) {
			continue
		}
		contained++
		if !b.check(p, "polygon", &o) {
			o.Err = fmt.Sprintf("probe %d: %s", i, o.Err)
			o.NonTrivial = true
			return o
		}
		padUsed(&o, b.rect, p)
		for _, ch := range chains {
			if d, interior := boundaryDistance(ch, p.Vector); d <= 1e-15 && interior {
				near++
				break
			}
		}
	}
	count(&o, "contained_probes", contained)
	o.NonTrivial = near > 0 && !b.rect.IsFull()
	return o
}

// ---------------------------------------------------- I: shape index region

type indexCase struct {
	Shapes []gen.ShapeSpec
	Fs     []float64 // fractions along edges for on-edge probes
}

func genIndexCase(t *rapid.T) indexCase {
	ic := indexCase{Shapes: gen.ShapeSet(t, "ss", 6, 120)}
	if rapid.IntRange(0, 5).Draw(t, "bigloop") == 0 {
		// a loop that contains a whole cube face: interior cells without edges
		c := gen.Symmetric(t, "bc")
		l := gen.StarLoopAt(t, "bl", c, 12, 0)
		ic.Shapes = append(ic.Shapes, gen.ShapeSpec{Type: "loop", Loops: [][]gen.P{l.V}})
	}
	for i := 0; i < 8; i++ {
		ic.Fs = append(ic.Fs, rapid.Float64Range(0, 1).Draw(t, "f"))
	}
	return ic
}

func checkIndexRegion(c indexCase) ev.Outcome {
	o := ev.Outcome{}
	idx := s2.NewShapeIndex()
	edges := 0
	var pts []s2.Point
	for _, sp := range c.Shapes {
		for _, l := range sp.Loops {
			if !allUnit(l) {
				o.Skip = true
				return o
			}
		}
		sh := sp.Build()
		idx.Add(sh)
		ne := sh.NumEdges()
		edges += ne
		for e := 0; e < ne; e++ {
			ed := sh.Edge(e)
			pts = append(pts, ed.V0, ed.V1)
			if e < 40 && ed.V0 != ed.V1 && ed.V0.Vector != ed.V1.Mul(-1) {
				pts = append(pts, hpOnEdge(ed.V0, ed.V1, c.Fs[e%len(c.Fs)]))
			}
		}
		// interior reference point of closed shapes (the star/ring centre is not
		// stored in the spec; use the library-independent vertex centroid only
		// for single star loops, where it is inside when the loop is small)
	}
	if edges == 0 {
		o.Skip = true
		return o
	}
	reg := idx.Region()
	cu := reg.CellUnionBound()
	rb := reg.RectBound()
	cb := reg.CapBound()
	b := boundsOf{rect: rb, cap: cb, cu: cu}
	faces := map[int]bool{}
	for _, id := range cu {
		faces[id.Face()] = true
	}
	o.Class = fmt.Sprintf("shapes=%d/cells=%d/faces=%d", bucket(len(c.Shapes)), len(cu), len(faces))
	if len(cu) == 0 {
		o.Err = fmt.Sprintf("index with %d edges has an empty CellUnionBound", edges)
		o.Finding = "indexregion-empty"
		return o
	}
	for i, p := range pts {
		if !gen.Unit(p) {
			continue
		}
		if !b.check(p, "indexregion", &o) {
			o.Err = fmt.Sprintf("point %d of the indexed geometry: %s", i, o.Err)
			o.NonTrivial = true
			return o
		}
	}
	count(&o, "points_checked", len(pts))
	o.NonTrivial = len(cu) >= 2
	return o
}

func init() {
	ev.Define("cell_bounds", ev.Options{
		Rule:  "single cells and unions of 2..12 related cells (all levels and faces; cells around the poles, on the +-pi seam, at cube corners; neighbours, children, ancestors, siblings; raw or normalized). Probes: the vertices, the centre, high-precision points on the cell edges and edge midpoints +-2..4 ulps, near-vertex points. Truth = exact half-space test against the four normalized vertices (closed). Each cell's RectBound/CapBound/CellUnionBound and the union's three bounds must contain every contained probe. Non-trivial = a probe lies exactly on a cell boundary (exact determinant zero).",
		Quick: 12000, Thorough: 250000}, genCellCase, checkCellBounds)
	ev.Define("cap_bounds", ev.Options{
		Rule:  "caps with centres at/near the poles (1e-300..1.5 rad), on the seam, cell-derived, random; radii 0, denormal, tiny, log-uniform, hemisphere +-1e-15.., full, and radii that put the boundary on or next to a pole. Probes on the boundary circle at the north/south-most points and at the meridian-tangent points (+-jitter), at 1-1e-16..1 of the radius, +-3 ulps, interior, centre, poles. Truth = exact chord comparison AND Cap.ContainsPoint. Cap.RectBound must contain the computed lat/lng, Cap.CellUnionBound must cover. Non-trivial = a contained probe within 8 eps (relative, chord²) of the boundary and the rectangle not full.",
		Quick: 24000, Thorough: 600000}, genCapCase, checkCapBounds)
	ev.Define("rect_bounds", ev.Options{
		Rule:  "valid lat-lng rectangles (touching poles, symmetric about the equator, thin, longitude spans pi+-0..1e-3, tiny, nearly 2pi, full, crossing the seam); probes at corners, edge midpoints, edges and interior, converted to points; kept if their computed lat/lng is in the rectangle. Rect.CapBound must contain them, Rect.CellUnionBound must cover them. Non-trivial = a corner is among the contained probes.",
		Quick: 16000, Thorough: 500000}, genRectCase, checkRectBounds)
	ev.Define("polyline_bounds", ev.Options{
		Rule:  "polylines: single edges between related points (near-identical 1e-300.., near-antipodal, at the poles), edges on (nearly) opposite meridians, edges 2e-16..0.1 from antipodal, chains winding around the sphere, degenerate tuples. Vertices must be in RectBound/CapBound/CellUnionBound exactly. Points on the edges computed at 320 bits (edge latitude extrema, midpoints, random) whose measured distance d to the polyline is <= 2.5e-16: latitude outside the bound by at most d + 1 eps, longitude by at most (d+eps)/cos(lat)+eps (bounds stated before running); if inside the rectangle they must be in the cap and the cell union. Non-trivial = an on-edge probe was judged and the rectangle is not full.",
		Quick: 16000, Thorough: 250000}, genLineCase, checkPolylineBounds)
	ev.Define("polygon_bounds", ev.Options{
		Rule:  "polygons: 1..4 nested rings (shell/hole alternation), two disjoint shells, single pole-vertex / pole-edge loops; probes as for loops; truth = exact crossing parity over all rings from the construction's known point. Contained probes must be in RectBound, CapBound, CellUnionBound. Non-trivial = a contained probe within 1e-15 of an edge interior and the rectangle not full.",
		Quick: 8000, Thorough: 150000}, genPolygonCase, checkPolygonBounds)
	ev.Define("shapeindex_region_bounds", ev.Options{
		Rule:  "1..6 shapes of the seven shape types about 1, 2, 3 or 6 centres (1..6 faces), optionally a loop containing a whole cube face; every vertex and a high-precision point on each of the first 40 edges of each shape must be covered by ShapeIndexRegion.CellUnionBound and lie in its RectBound and CapBound. Non-trivial = the bound has at least two cells.",
		Quick: 4000, Thorough: 80000}, genIndexCase, checkIndexRegion)
}
