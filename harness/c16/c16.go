// Package c16: the intersection point of two crossing edges is accurate and
// order-independent.
//
// Oracle: X* = (a0×a1)×(b0×b1) computed exactly in integers (every float64
// input is a dyadic rational; all four points are scaled by one common power
// of two).  The sign of X* is the one for which X* lies on both closed edges,
// decided exactly and scale-free (see edgeSide).  All claims are then decided
// exactly with cross-multiplied integers:
//
//	unit length      | |X|² − 1 | ≤ 5·2⁻⁵²           (the C++ IsUnitLength bound; Normalize's worst case is 4.5·2⁻⁵²)
//	accuracy         |X × X*|² · 2¹⁰⁰ ≤ |X|² |X*|²   (sin²∠ ≤ (8·2⁻⁵³)², which is implied by ∠ ≤ 8·2⁻⁵³)
//	hemisphere       X · X* > 0
//	order            the 8 call forms return == results
//
// For exactly collinear edges (X* = 0) every point of the overlap arc is an
// intersection point: the result must be an endpoint lying in the closed other
// edge (decided exactly) or, failing that, lie within the bound of both edges
// (320-bit arithmetic), and be the same in all 8 forms.
package c16

import (
	"fmt"
	"math"
	"math/big"
	"runtime"
	"runtime/debug"
	"sort"

	"github.com/golang/geo/r3"
	"github.com/golang/geo/s2"
	"pgregory.net/rapid"

	"verifharness/internal/ev"
	"verifharness/internal/exact"
	"verifharness/internal/gen"
	"verifharness/internal/hp"
)

// quad is the Case: two edges (A0,A1) and (B0,B1).
type quad struct{ A0, A1, B0, B1 gen.P }

func mkQuad(a0, a1, b0, b1 s2.Point) quad {
	return quad{gen.FromPt(a0), gen.FromPt(a1), gen.FromPt(b0), gen.FromPt(b1)}
}

// ---------------------------------------------------------------------------
// exact helpers (own package: internal/* is shared and read-only here)

func finite(v r3.Vector) bool {
	for _, f := range []float64{v.X, v.Y, v.Z} {
		if math.IsNaN(f) || math.IsInf(f, 0) {
			return false
		}
	}
	return true
}

// unitExact decides | |x|² − 1 | ≤ 5·2⁻⁵² exactly.
func unitExact(x r3.Vector) bool {
	n, e := exact.Ints(x.X, x.Y, x.Z)
	N := new(big.Int)
	for _, c := range n {
		N.Add(N, new(big.Int).Mul(c, c))
	}
	// |x|² = N·2^(2e).  Want |N·2^(2e) − 1|·2^52 ≤ 5.
	k := -2 * e
	one := big.NewInt(1)
	var diff, rhs *big.Int
	if k >= 0 {
		// |N − 2^k|·2^52 ≤ 5·2^k
		diff = new(big.Int).Sub(N, new(big.Int).Lsh(one, uint(k)))
		rhs = new(big.Int).Lsh(big.NewInt(5), uint(k))
	} else {
		diff = new(big.Int).Sub(new(big.Int).Lsh(N, uint(-k)), one)
		rhs = big.NewInt(5)
	}
	diff.Abs(diff)
	diff.Lsh(diff, 52)
	return diff.Cmp(rhs) <= 0
}

func unitRatio(x r3.Vector) float64 { return math.Abs(x.Norm2()-1) / (5 * 0x1p-52) }

// sin2Within decides sin²∠(x, xs) ≤ 2⁻¹⁰⁰ = (8·2⁻⁵³)² exactly (both vectors
// non-zero) and returns the approximate ratio ∠/(8·2⁻⁵³) for the evidence.
func sin2Within(xi, xs exact.Vec) (bool, float64) {
	c := exact.Cross(xi, xs)
	num := exact.Norm2(c)
	den := new(big.Int).Mul(exact.Norm2(xi), exact.Norm2(xs))
	ok := new(big.Int).Lsh(num, 100).Cmp(den) <= 0
	q := new(big.Float).SetPrec(128).Quo(new(big.Float).SetPrec(128).SetInt(num), new(big.Float).SetPrec(128).SetInt(den))
	q.Sqrt(q)
	q.Mul(q, new(big.Float).SetPrec(128).SetFloat64(0x1p50))
	r, _ := q.Float64()
	return ok, r
}

// scaledFloat returns x·2^e as a float64 without intermediate over/underflow.
func scaledFloat(x *big.Float, e int) float64 {
	if x.Sign() == 0 {
		return 0
	}
	m := new(big.Float)
	ex := x.MantExp(m)
	f, _ := m.Float64()
	return math.Ldexp(f, ex+e)
}

// bigSqrtRatio returns float64(sqrt(a/b)) computed without under/overflow.
func bigSqrtRatio(a, b *big.Int) float64 {
	if b.Sign() == 0 {
		return math.Inf(1)
	}
	q := new(big.Float).SetPrec(128).Quo(new(big.Float).SetPrec(128).SetInt(a), new(big.Float).SetPrec(128).SetInt(b))
	q.Sqrt(q)
	r, _ := q.Float64()
	return r
}

// edgeSide: p ≠ 0 lies exactly on the great circle of (q0,q1), n = q0×q1 ≠ 0.
// With φ the angle of p from q0 towards q1 and α < π the edge length,
// (q0×p)·n ∝ sin φ and (p×q1)·n ∝ sin(α−φ).  Returns +1 if p is on the closed
// edge (both ≥ 0), −1 if −p is (both ≤ 0), 0 if neither.  Scale-free: no vector
// needs to be exactly unit length (the bisector test p·(q0+q1) > 0 is not
// scale-free and fails for nearly antipodal endpoints).
func edgeSide(p, q0, q1, n exact.Vec) int {
	s1 := exact.Dot(exact.Cross(q0, p), n).Sign()
	s2 := exact.Dot(exact.Cross(p, q1), n).Sign()
	switch {
	case s1 >= 0 && s2 >= 0 && s1+s2 > 0:
		return 1
	case s1 <= 0 && s2 <= 0 && s1+s2 < 0:
		return -1
	}
	return 0
}

// inClosedEdge: p, q0, q1 exactly coplanar; reports whether p lies on the
// closed shorter arc q0..q1.
func inClosedEdge(p, q0, q1 exact.Vec) bool {
	n := exact.Cross(q0, q1)
	if exact.IsZero(n) {
		return false
	}
	return edgeSide(p, q0, q1, n) > 0
}

// ---------------------------------------------------------------------------
// the check (shared by all sub-checks)

var forms = [8][4]int{
	{0, 1, 2, 3}, {1, 0, 2, 3}, {0, 1, 3, 2}, {1, 0, 3, 2},
	{2, 3, 0, 1}, {3, 2, 0, 1}, {2, 3, 1, 0}, {3, 2, 1, 0},
}

var formNames = [8]string{"(a0,a1,b0,b1)", "(a1,a0,b0,b1)", "(a0,a1,b1,b0)", "(a1,a0,b1,b0)",
	"(b0,b1,a0,a1)", "(b1,b0,a0,a1)", "(b0,b1,a1,a0)", "(b1,b0,a1,a0)"}

func angleBucket(a float64) string {
	switch {
	case a >= 1e-3:
		return "ang>=1e-3"
	case a >= 1e-9:
		return "ang1e-9..1e-3"
	default:
		return "ang<1e-9"
	}
}

func lenBucket(l float64) string {
	switch {
	case l >= 1e-9:
		return "len>=1e-9"
	case l >= 1e-100:
		return "len1e-100..1e-9"
	default:
		return "len<1e-100"
	}
}

func checkQuad(c quad) ev.Outcome {
	o := checkQuadInner(c)
	if o.Err != "" {
		o.Ratios = nil // worst ratios are evidence about passing cases only
	}
	return o
}

func checkQuadInner(c quad) ev.Outcome {
	p := [4]s2.Point{c.A0.Pt(), c.A1.Pt(), c.B0.Pt(), c.B1.Pt()}
	o := ev.Outcome{}
	for _, q := range p {
		if !finite(q.Vector) || !gen.Unit(q) {
			o.Skip = true
			return o
		}
	}
	a0, a1, b0, b1 := p[0], p[1], p[2], p[3]
	// documented domain: CrossingSign == Cross (this also excludes degenerate
	// and antipodal edges and shared vertices).
	if a0 == a1 || b0 == b1 || a0.Vector == a1.Mul(-1) || b0.Vector == b1.Mul(-1) {
		o.Skip = true
		return o
	}
	if s2.CrossingSign(a0, a1, b0, b1) != s2.Cross {
		o.Skip = true
		return o
	}

	// ---- oracle
	vs, E := exact.IntVecs(a0.Vector, a1.Vector, b0.Vector, b1.Vector)
	A0, A1, B0, B1 := vs[0], vs[1], vs[2], vs[3]
	nA, nB := exact.Cross(A0, A1), exact.Cross(B0, B1)
	if exact.IsZero(nA) || exact.IsZero(nB) {
		// same direction, different length (both "unit" in float64): no great circle.
		o.Skip = true
		return o
	}
	xs := exact.Cross(nA, nB)
	collinear := exact.IsZero(xs)
	if !collinear {
		sA := edgeSide(xs, A0, A1, nA)
		sB := edgeSide(xs, B0, B1, nB)
		if sA == 0 || sB == 0 || sA != sB {
			// CrossingSign says Cross but neither of ±X* lies on both closed
			// edges: a C03 matter, not judged here.
			o.Skip = true
			return o
		}
		if sA < 0 {
			xs = exact.Neg(xs)
		}
	}
	xs2 := exact.Norm2(xs)
	// |X*|² (true scale) < 2^-1015: the float64 squared norm of the exact cross
	// product (and of the stable path's interpolated vector, which is ≈ 2|X*|)
	// is subnormal or zero.
	underflow := !collinear && xs2.BitLen()+8*E < -1014
	// the same for the edge normals (only matters in the collinear branch,
	// which converts them to float64 and normalises them).
	normalUnderflow := exact.Norm2(nA).BitLen()+4*E < -1014 || exact.Norm2(nB).BitLen()+4*E < -1014

	aLen := a1.Sub(a0.Vector).Norm()
	bLen := b1.Sub(b0.Vector).Norm()
	minLen := math.Min(aLen, bLen)
	sinCross := 0.0
	if !collinear {
		sinCross = bigSqrtRatio(xs2, new(big.Int).Mul(exact.Norm2(nA), exact.Norm2(nB)))
	}

	_, stableOK := s2.VerifIntersectionStable(a0, a1, b0, b1)
	path := "exact"
	if stableOK {
		path = "stable"
	}
	if collinear {
		o.Class = path + "|collinear|" + lenBucket(minLen)
	} else {
		o.Class = path + "|" + angleBucket(sinCross) + "|" + lenBucket(minLen)
	}
	o.NonTrivial = !stableOK || sinCross < 1e-9 || minLen < 1e-100
	o.Counts = map[string]int{"path-" + path: 1}
	o.Ratios = map[string]float64{}

	// The hemisphere correction in Intersection relies on X·(a0+a1+b0+b1) > 0.
	// The inputs are unit only to within 2ε in length (8ε over four points) and
	// the sum and dot product round (≈6ε), X is off by ≤ 2⁻⁵⁰·|sum|: when the exact
	// value of X̂*·(a0+a1+b0+b1) is below 16ε = 2⁻⁴⁸ its computed sign is noise.
	// That needs an edge within ~1e-7 of 180° crossed next to one of its endpoints.
	// two endpoints of different edges that are the same point of the sphere
	// but different vectors (same direction, lengths differing within the unit
	// tolerance): CrossingSign does not treat them as a shared vertex.
	sameDir := false
	for _, i := range []int{0, 1} {
		for _, j := range []int{2, 3} {
			if exact.IsZero(exact.Cross(vs[i], vs[j])) && exact.Dot(vs[i], vs[j]).Sign() > 0 {
				sameDir = true
			}
		}
	}
	S := exact.Add(exact.Add(A0, A1), exact.Add(B0, B1))
	hemiIll := false
	if !collinear {
		// |X̂*·sum|² = (xs·S)² / |xs|² · 2^(2E)
		d := exact.Dot(xs, S)
		q := new(big.Float).SetPrec(128).Quo(new(big.Float).SetPrec(128).SetInt(new(big.Int).Mul(d, d)), new(big.Float).SetPrec(128).SetInt(xs2))
		hemiIll = math.Sqrt(scaledFloat(q, 2*E)) < 0x1p-48
	} else {
		for _, q := range vs {
			// q·sum = (q·S)·2^(2E); q is unit to within 2ε
			f := scaledFloat(new(big.Float).SetPrec(128).SetInt(exact.Dot(q, S)), 2*E)
			if math.Abs(f) < 0x1p-48 {
				hemiIll = true
			}
		}
	}
	// Finding classes: one per root cause, each restricted to the region of the
	// input space (computed exactly from the case) where that cause applies.
	finding := func(kind string) string {
		switch {
		case collinear && sameDir:
			// the symbolic "exactly two endpoints are interior" argument of the
			// collinear branch does not hold for coincident directions
			return "collinear-samedir"
		case hemiIll && (kind == "wrong-hemisphere" || kind == "negated-endpoint"):
			return "antipodal-hemisphere"
		case collinear && normalUnderflow:
			// collinear branch of intersectionExact with an edge normal whose
			// float64 conversion underflows
			return "collinear-normal-underflow"
		case collinear && kind == "order":
			return "collinear-order"
		case collinear:
			return ""
		case underflow && stableOK:
			return "stable-underflow"
		case underflow:
			return "exact-underflow"
		}
		return ""
	}

	// ---- the 8 call forms
	var res [8]s2.Point
	for i, f := range forms {
		res[i] = s2.Intersection(p[f[0]], p[f[1]], p[f[2]], p[f[3]])
	}
	x := res[0]

	// judge every form's result on its own (so that the verdict does not depend
	// on which form the case happens to be stored in), then compare them.
	for i := range res {
		xi := res[i]
		if !finite(xi.Vector) {
			o.Err = fmt.Sprintf("Intersection%s = %v is not finite", formNames[i], xi.Vector)
			o.Finding = finding("nonfinite")
			return o
		}
		if !unitExact(xi.Vector) {
			o.Err = fmt.Sprintf("Intersection%s = (%g,%g,%g) is not unit length: |x|²−1 = %g (path %s)", formNames[i], xi.X, xi.Y, xi.Z, xi.Norm2()-1, path)
			o.Finding = finding("nonunit")
			return o
		}
		if r := unitRatio(xi.Vector); r > o.Ratios["abs(norm2-1)/(5*2^-52)"] {
			o.Ratios["abs(norm2-1)/(5*2^-52)"] = r
		}
		XI := exact.IntVec(xi.Vector)
		if collinear {
			if msg, kind := judgeCollinear(xi, p, vs); msg != "" {
				o.Err = fmt.Sprintf("Intersection%s = (%g,%g,%g): %s", formNames[i], xi.X, xi.Y, xi.Z, msg)
				o.Finding = finding(kind)
				return o
			}
			continue
		}
		ok, ratio := sin2Within(XI, xs)
		if ratio > o.Ratios["angle_to_exact/(8*2^-53)"] {
			o.Ratios["angle_to_exact/(8*2^-53)"] = ratio
		}
		if !ok {
			o.Err = fmt.Sprintf("Intersection%s = (%g,%g,%g) is %.4g × (8·2⁻⁵³ rad) away from the exact intersection line (path %s, sin(crossing angle)=%.3g, lengths %.3g %.3g)",
				formNames[i], xi.X, xi.Y, xi.Z, ratio, path, sinCross, aLen, bLen)
			o.Finding = finding("inaccurate")
			return o
		}
		if exact.Dot(XI, xs).Sign() <= 0 {
			o.Err = fmt.Sprintf("Intersection%s = (%g,%g,%g) is on the wrong side of the sphere (antipode of the crossing point; path %s)", formNames[i], xi.X, xi.Y, xi.Z, path)
			o.Finding = finding("wrong-hemisphere")
			return o
		}
	}
	for i := 1; i < 8; i++ {
		if res[i] != x {
			o.Err = fmt.Sprintf("Intersection%s = (%v,%v,%v) but Intersection%s = (%v,%v,%v) (path %s, collinear=%v)",
				formNames[0], x.X, x.Y, x.Z, formNames[i], res[i].X, res[i].Y, res[i].Z, path, collinear)
			o.Finding = finding("order")
			return o
		}
	}

	// ---- stages judged alone (hooks)
	if collinear {
		return o
	}
	if xsv, ok := s2.VerifIntersectionStable(a0, a1, b0, b1); ok {
		if msg, ratio := judgeStage(xsv, xs); msg != "" {
			o.Err = "intersectionStable accepted its result but " + msg
			o.Finding = "stage-stable"
			if underflow {
				o.Finding = "stage-stable-underflow"
			}
			return o
		} else if ratio > o.Ratios["stable_angle/(8*2^-53)"] {
			o.Ratios["stable_angle/(8*2^-53)"] = ratio
		}
	}
	{
		xe := s2.VerifIntersectionExact(a0, a1, b0, b1)
		if msg, ratio := judgeStage(xe, xs); msg != "" {
			o.Err = "intersectionExact alone: " + msg
			o.Finding = "stage-exact"
			if underflow {
				o.Finding = "stage-exact-underflow"
			}
			return o
		} else if ratio > o.Ratios["exact_path_angle/(8*2^-53)"] {
			o.Ratios["exact_path_angle/(8*2^-53)"] = ratio
		}
	}
	return o
}

// judgeStage: a stage result (sign not yet corrected) must be finite, unit and
// within the bound of the exact intersection line.
func judgeStage(x s2.Point, xs exact.Vec) (string, float64) {
	if !finite(x.Vector) {
		return fmt.Sprintf("result %v is not finite", x.Vector), 0
	}
	if !unitExact(x.Vector) {
		return fmt.Sprintf("result (%g,%g,%g) is not unit length: |x|²−1 = %g", x.X, x.Y, x.Z, x.Norm2()-1), 0
	}
	ok, ratio := sin2Within(exact.IntVec(x.Vector), xs)
	if !ok {
		return fmt.Sprintf("result (%g,%g,%g) is %.4g × (8·2⁻⁵³ rad) away from the exact intersection line", x.X, x.Y, x.Z, ratio), ratio
	}
	return "", ratio
}

// judgeCollinear: the edges are exactly collinear; x must be an endpoint that
// lies in the closed other edge, or at least lie within the bound of both edges.
func judgeCollinear(x s2.Point, p [4]s2.Point, vs []exact.Vec) (msg, kind string) {
	other := [4][2]int{{2, 3}, {2, 3}, {0, 1}, {0, 1}}
	for i := 0; i < 4; i++ {
		if x == p[i] {
			if inClosedEdge(vs[i], vs[other[i][0]], vs[other[i][1]]) {
				return "", ""
			}
			return fmt.Sprintf("it is endpoint %d, which does not lie on the other edge (edges are exactly collinear)", i), "inaccurate"
		}
	}
	// not an endpoint: accept any point within the bound of both edges.
	lim := hp.Mul(hp.F(0x1p-50), hp.F(0x1p-50)) // chord² ≈ angle² at this size
	xv := hp.Vec(x.Vector)
	for e := 0; e < 2; e++ {
		d2, _ := hp.PointEdgeChord2(xv, hp.Vec(p[2*e].Vector), hp.Vec(p[2*e+1].Vector))
		if d2.Cmp(lim) > 0 {
			kind = "inaccurate"
			for i := 0; i < 4; i++ {
				if x.Vector == p[i].Mul(-1) && inClosedEdge(vs[i], vs[other[i][0]], vs[other[i][1]]) {
					kind = "negated-endpoint"
				}
			}
			return fmt.Sprintf("not an endpoint (%s) and %.4g × (8·2⁻⁵³ rad) away from edge %d (edges are exactly collinear)", kind, math.Sqrt(hp.Float(d2))*0x1p50, e), kind
		}
	}
	return "", ""
}

// ---------------------------------------------------------------------------
// generators

func pow10(t *rapid.T, label string, lo, hi float64) float64 {
	return math.Pow(10, rapid.Float64Range(lo, hi).Draw(t, label))
}

// crossAngle draws a crossing angle from 90° down to 1e-15.
func crossAngle(t *rapid.T, label string) float64 {
	switch rapid.IntRange(0, 3).Draw(t, label+".k") {
	case 0:
		return rapid.Float64Range(0.01, math.Pi/2).Draw(t, label+".u")
	default:
		return pow10(t, label+".e", -15.5, 0.19)
	}
}

// at returns the point at angular distance s from x along the unit tangent d.
func at(x s2.Point, d r3.Vector, s float64) s2.Point {
	v := x.Mul(math.Cos(s)).Add(d.Mul(math.Sin(s)))
	return gen.Fix(s2.Point{Vector: v}, x)
}

func tangentFrame(x s2.Point) (u, v r3.Vector) {
	u = x.Ortho().Normalize()
	v = x.Cross(u).Normalize()
	return
}

// dist draws a distance from the crossing point to an endpoint.
func dist(t *rapid.T, label string) float64 {
	switch rapid.IntRange(0, 5).Draw(t, label+".k") {
	case 0, 1:
		return rapid.Float64Range(0.001, math.Pi/2-0.001).Draw(t, label+".u")
	case 2:
		return math.Pi/2 - pow10(t, label+".n", -17, -1)
	default:
		return pow10(t, label+".e", -17, 0.19)
	}
}

// genOnSphere: choose the crossing point X, two directions at crossing angle
// theta and four distances.
func genOnSphere(t *rapid.T, antipodal bool) quad {
	x := gen.Base(t, "x")
	u, v := tangentFrame(x)
	phi := rapid.Float64Range(0, 2*math.Pi).Draw(t, "phi")
	th := crossAngle(t, "theta")
	dA := u.Mul(math.Cos(phi)).Add(v.Mul(math.Sin(phi)))
	dB := u.Mul(math.Cos(phi + th)).Add(v.Mul(math.Sin(phi + th)))
	if th < 1e-7 {
		// keep the small angle: dB = dA + th·(x × dA)
		dB = dA.Add(x.Cross(dA).Mul(th)).Normalize()
	}
	sa0, sa1, sb0, sb1 := dist(t, "sa0"), dist(t, "sa1"), dist(t, "sb0"), dist(t, "sb1")
	if !antipodal && rapid.IntRange(0, 2).Draw(t, "short") == 0 {
		// short edges of one common scale (the regime of real data, where the
		// stable path is the one that answers)
		sc := pow10(t, "scale", -12, -0.3)
		f := func(l string) float64 { return sc * rapid.Float64Range(0.05, 1).Draw(t, l) }
		sa0, sa1, sb0, sb1 = f("fa0"), f("fa1"), f("fb0"), f("fb1")
	}
	if antipodal {
		// edge a spans nearly 180°: sa0 + sa1 = π − δ
		sa1 = math.Pi - sa0 - pow10(t, "delta", -17, -1)
		if rapid.Bool().Draw(t, "bothAnti") {
			sb1 = math.Pi - sb0 - pow10(t, "delta2", -17, -1)
		}
	}
	return mkQuad(at(x, dA, -sa0), at(x, dA, sa1), at(x, dB, -sb0), at(x, dB, sb1))
}

// genFromTuple: a0, a1, b0 from the shared related-point generator, X on the
// edge a, b1 beyond X as seen from b0.
func genFromTuple(t *rapid.T) quad {
	ps := gen.Tuple(t, "p", 3)
	a0, a1, b0 := ps[0], ps[1], ps[2]
	var f float64
	switch rapid.IntRange(0, 2).Draw(t, "fk") {
	case 0:
		f = rapid.Float64Range(0, 1).Draw(t, "f")
	case 1:
		f = pow10(t, "fe", -17, -0.3)
	default:
		f = 1 - pow10(t, "fe1", -17, -0.3)
	}
	x := gen.Fix(s2.Interpolate(f, a0, a1), a0)
	ang := float64(b0.Angle(x.Vector))
	if !(ang > 0) || math.IsNaN(ang) {
		return mkQuad(a0, a1, b0, x)
	}
	n := b0.PointCross(x)
	d := n.Cross(b0.Vector).Normalize() // tangent at b0 towards x
	var extra float64
	if rapid.Bool().Draw(t, "gk") {
		extra = rapid.Float64Range(0, 1).Draw(t, "g") * (math.Pi - ang) * 0.999
	} else {
		extra = pow10(t, "ge", -17, 0) * math.Min(1, math.Pi-ang) * 0.999
	}
	b1 := at(b0, d, ang+extra)
	return mkQuad(a0, a1, b0, b1)
}

// genTouching: b0 exactly on the great circle of a (exactly coplanar triple),
// b1 free: crossings decided by the symbolic perturbation, X* = ±b0.
func genTouching(t *rapid.T) quad {
	ps := gen.CoplanarTuple(t, "c", 3)
	// make the point that lies between the other two the touching endpoint
	v := []exact.Vec{exact.IntVec(ps[0].Vector), exact.IntVec(ps[1].Vector), exact.IntVec(ps[2].Vector)}
	for _, r := range [][3]int{{0, 1, 2}, {0, 2, 1}, {1, 2, 0}} {
		if inClosedEdge(v[r[2]], v[r[0]], v[r[1]]) {
			ps = []s2.Point{ps[r[0]], ps[r[1]], ps[r[2]]}
			break
		}
	}
	b1 := gen.Related(t, "b1", ps)
	if rapid.Bool().Draw(t, "fresh") {
		b1 = gen.Base(t, "b1f")
	}
	q := []s2.Point{ps[0], ps[1], ps[2], b1}
	if rapid.Bool().Draw(t, "role") {
		return mkQuad(q[2], q[3], q[0], q[1])
	}
	return mkQuad(q[0], q[1], q[2], q[3])
}

// embed puts the 2-D unit vector (a,b) into one of the 9 planes that survive
// normalisation exactly (see gen.CoplanarTuple).
func embed(plane int, a, b float64) s2.Point {
	var v r3.Vector
	switch plane {
	case 0:
		v = r3.Vector{X: 0, Y: a, Z: b}
	case 1:
		v = r3.Vector{X: a, Y: 0, Z: b}
	case 2:
		v = r3.Vector{X: a, Y: b, Z: 0}
	case 3:
		v = r3.Vector{X: a, Y: a, Z: b}
	case 4:
		v = r3.Vector{X: a, Y: -a, Z: b}
	case 5:
		v = r3.Vector{X: b, Y: a, Z: a}
	case 6:
		v = r3.Vector{X: b, Y: a, Z: -a}
	case 7:
		v = r3.Vector{X: a, Y: b, Z: a}
	default:
		v = r3.Vector{X: a, Y: b, Z: -a}
	}
	if v.Norm2() == 0 {
		return s2.Point{Vector: r3.Vector{X: 1}}
	}
	return s2.Point{Vector: v.Normalize()}
}

// collinear4 draws four points exactly on one great circle, in order of their
// position along it.
func collinear4(t *rapid.T) (pts [4]s2.Point) {
	plane := rapid.IntRange(0, 8).Draw(t, "plane")
	rot := rapid.IntRange(0, 3).Draw(t, "rot")
	axisMode := rapid.Bool().Draw(t, "axis")
	t0 := 0.0
	lo := -300.0
	if !axisMode {
		t0 = rapid.Float64Range(0, math.Pi/2).Draw(t, "t0")
		lo = -15
	}
	pos := make([]float64, 4)
	for i := range pos {
		l := fmt.Sprintf("t%d", i)
		s := float64(rapid.SampledFrom([]int{-1, 1}).Draw(t, l+".s"))
		pos[i] = t0 + s*pow10(t, l+".e", lo, 0.19)
	}
	sort.Float64s(pos)
	for i := 1; i < 4; i++ {
		if pos[i] <= pos[i-1] { // keep the four positions distinct
			pos[i] = pos[i-1] + math.Abs(pos[i-1])*0.25 + 1e-300
		}
	}
	for i, tt := range pos {
		a, b := math.Cos(tt), math.Sin(tt)
		for k := 0; k < rot; k++ {
			a, b = -b, a
		}
		pts[i] = embed(plane, a, b)
	}
	return
}

func genCollinear(t *rapid.T) quad {
	p := collinear4(t)
	// nested pairs cross only when the symbolic perturbation says so (mostly
	// not), so they are drawn less often than interleaved ones.
	switch rapid.IntRange(0, 9).Draw(t, "pair") {
	case 0:
		return mkQuad(p[0], p[3], p[1], p[2]) // nested
	case 1:
		return mkQuad(p[1], p[2], p[3], p[0]) // nested, roles swapped
	case 2, 3, 4:
		return mkQuad(p[2], p[0], p[1], p[3]) // interleaved, a reversed
	case 5, 6:
		return mkQuad(p[1], p[3], p[2], p[0]) // interleaved, roles swapped, b reversed
	default:
		return mkQuad(p[0], p[2], p[1], p[3]) // interleaved
	}
}

// genNearCollinear: an exactly collinear configuration with 1–3 points moved
// by a few ulps: crossing angles at the resolution of float64.
func genNearCollinear(t *rapid.T) quad {
	q := genCollinear(t)
	ps := []s2.Point{q.A0.Pt(), q.A1.Pt(), q.B0.Pt(), q.B1.Pt()}
	n := rapid.IntRange(1, 3).Draw(t, "npert")
	for i := 0; i < n; i++ {
		k := rapid.IntRange(0, 3).Draw(t, fmt.Sprintf("pi%d", i))
		ps[k] = gen.Perturb(t, fmt.Sprintf("pp%d", i), ps[k], 3)
	}
	return mkQuad(ps[0], ps[1], ps[2], ps[3])
}

// genMirror: edge b is the mirror image of edge a in a coordinate plane that a
// crosses: the two edges have exactly the same length (the tie that the
// "longer edge first" ordering has to break deterministically) and cross on
// the mirror plane.
func genMirror(t *rapid.T) quad {
	a0 := gen.Base(t, "a0")
	var a1 s2.Point
	if rapid.Bool().Draw(t, "near") {
		a1 = gen.Related(t, "a1", []s2.Point{a0})
	} else {
		a1 = gen.Base(t, "a1")
	}
	k := rapid.IntRange(0, 2).Draw(t, "axis")
	co := func(p s2.Point) float64 { return [3]float64{p.X, p.Y, p.Z}[k] }
	flip := func(p s2.Point) s2.Point {
		v := p.Vector
		switch k {
		case 0:
			v.X = -v.X
		case 1:
			v.Y = -v.Y
		default:
			v.Z = -v.Z
		}
		return s2.Point{Vector: v}
	}
	if co(a0)*co(a1) > 0 {
		a1 = flip(a1) // put a1 on the other side of the mirror
	}
	b0, b1 := flip(a0), flip(a1)
	if rapid.Bool().Draw(t, "rev") {
		b0, b1 = b1, b0
	}
	return mkQuad(a0, a1, b0, b1)
}

func genGeneric(t *rapid.T) quad {
	switch rapid.IntRange(0, 10).Draw(t, "family") {
	case 0, 1, 2, 3:
		return genOnSphere(t, false)
	case 4:
		return genOnSphere(t, true)
	case 5, 6:
		return genFromTuple(t)
	case 7:
		return genTouching(t)
	case 8:
		return genMirror(t)
	default:
		return genNearCollinear(t)
	}
}

// axisPerm maps (x,y,z) through a signed coordinate permutation.
func axisPerm(k int, sx, sy, sz float64, v r3.Vector) r3.Vector {
	c := [3]float64{v.X * sx, v.Y * sy, v.Z * sz}
	perms := [6][3]int{{0, 1, 2}, {0, 2, 1}, {1, 0, 2}, {1, 2, 0}, {2, 0, 1}, {2, 1, 0}}
	pm := perms[k]
	return r3.Vector{X: c[pm[0]], Y: c[pm[1]], Z: c[pm[2]]}
}

func drawPerm(t *rapid.T) func(r3.Vector) s2.Point {
	k := rapid.IntRange(0, 5).Draw(t, "perm")
	sg := func(l string) float64 { return float64(rapid.SampledFrom([]int{1, -1}).Draw(t, l)) }
	sx, sy, sz := sg("sx"), sg("sy"), sg("sz")
	return func(v r3.Vector) s2.Point {
		return gen.Fix(s2.Point{Vector: axisPerm(k, sx, sy, sz, v)}, s2.Point{Vector: r3.Vector{X: 1}})
	}
}

// tinyDists draws four distances in [1e-300, 1e-9], either independent or
// within a few decades of one common scale.
func tinyDists(t *rapid.T) [4]float64 {
	var d [4]float64
	if rapid.Bool().Draw(t, "common") {
		base := rapid.Float64Range(-298, -11).Draw(t, "base")
		for i := range d {
			d[i] = math.Pow(10, base+rapid.Float64Range(-2, 2).Draw(t, fmt.Sprintf("d%d", i)))
		}
	} else {
		for i := range d {
			d[i] = pow10(t, fmt.Sprintf("d%d", i), -300, -9)
		}
	}
	return d
}

// genAxisPlanar: all four endpoints in the tangent plane next to a coordinate
// axis, (1, y, z) with |y|,|z| ≤ ~1e-9 (unit length in float64 as they stand);
// the plane carries full relative precision down to 1e-300, so arbitrarily
// short edges with arbitrary crossing angles exist there.  Optionally one
// endpoint of each edge is replaced by a far point in the same direction.
func genAxisPlanar(t *rapid.T) quad {
	pm := drawPerm(t)
	var cy, cz float64
	if !rapid.Bool().Draw(t, "c0") {
		cy = float64(rapid.SampledFrom([]int{-1, 1}).Draw(t, "cys")) * pow10(t, "cy", -300, -9)
		cz = float64(rapid.SampledFrom([]int{-1, 1}).Draw(t, "czs")) * pow10(t, "cz", -300, -9)
	}
	phi := rapid.Float64Range(0, 2*math.Pi).Draw(t, "phi")
	if rapid.IntRange(0, 3).Draw(t, "phiSnap") == 0 {
		phi = float64(rapid.IntRange(0, 3).Draw(t, "phiQ")) * math.Pi / 2
	}
	th := crossAngle(t, "theta")
	ca, sa := math.Cos(phi), math.Sin(phi)
	if math.Abs(ca) < 1e-15 {
		ca = 0
	}
	if math.Abs(sa) < 1e-15 {
		sa = 0
	}
	cb, sb := math.Cos(phi+th), math.Sin(phi+th)
	if th < 1e-7 {
		cb, sb = ca-th*sa, sa+th*ca
	}
	d := tinyDists(t)
	pt := func(dist, c, s float64) r3.Vector { return r3.Vector{X: 1, Y: cy + dist*c, Z: cz + dist*s} }
	a0 := pm(pt(-d[0], ca, sa))
	a1 := pm(pt(d[1], ca, sa))
	b0 := pm(pt(-d[2], cb, sb))
	b1 := pm(pt(d[3], cb, sb))
	far := func(s, c, sn float64) s2.Point {
		return pm(r3.Vector{X: math.Cos(s), Y: math.Sin(s) * c, Z: math.Sin(s) * sn}.Normalize())
	}
	switch rapid.IntRange(0, 5).Draw(t, "far") {
	case 0:
		a1 = far(pow10(t, "fa", -8, 0.45), ca, sa)
	case 1:
		a1 = far(pow10(t, "fa", -8, 0.45), ca, sa)
		b1 = far(pow10(t, "fb", -8, 0.45), cb, sb)
	}
	return mkQuad(a0, a1, b0, b1)
}

// genPlaneLongTiny: a long edge lying exactly in a coordinate plane (z = 0)
// crossed by a tiny edge (x, y, ∓t): the crossing is exactly where z = 0.
func genPlaneLongTiny(t *rapid.T) quad {
	pm := drawPerm(t)
	al0 := 0.0
	if !rapid.Bool().Draw(t, "a0axis") {
		al0 = rapid.Float64Range(-math.Pi, math.Pi).Draw(t, "al0")
	}
	span := rapid.Float64Range(1e-6, math.Pi-1e-6).Draw(t, "span")
	if rapid.IntRange(0, 3).Draw(t, "spanK") == 0 {
		span = pow10(t, "spanE", -9, 0.49)
	}
	a0 := r3.Vector{X: math.Cos(al0), Y: math.Sin(al0)}
	a1 := r3.Vector{X: math.Cos(al0 + span), Y: math.Sin(al0 + span)}
	// position of the crossing along a
	var off float64
	switch rapid.IntRange(0, 2).Draw(t, "offK") {
	case 0:
		off = rapid.Float64Range(0, 1).Draw(t, "offU") * span
	case 1:
		off = pow10(t, "offE", -300, -1) * span
	default:
		off = span * (1 - pow10(t, "offE1", -16, -1))
	}
	al := al0 + off
	xy := func(a float64) (float64, float64) {
		if al0 == 0 && math.Abs(a) < 1e-8 {
			return 1, a
		}
		return math.Cos(a), math.Sin(a)
	}
	t0, t1 := pow10(t, "t0", -300, -9), pow10(t, "t1", -300, -9)
	if rapid.Bool().Draw(t, "tcommon") {
		t1 = t0 * pow10(t, "t1r", -2, 2)
		if t1 > 1e-9 || t1 < 1e-300 {
			t1 = t0
		}
	}
	sh := 0.0
	if rapid.Bool().Draw(t, "shift") {
		sh = float64(rapid.SampledFrom([]int{-1, 1}).Draw(t, "shs")) * pow10(t, "she", -300, -9)
	}
	x0, y0 := xy(al)
	x1, y1 := xy(al + sh)
	b0 := r3.Vector{X: x0, Y: y0, Z: -t0}
	b1 := r3.Vector{X: x1, Y: y1, Z: t1}
	return mkQuad(pm(a0), pm(a1), pm(b0), pm(b1))
}

func genTiny(t *rapid.T) quad {
	switch rapid.IntRange(0, 3).Draw(t, "family") {
	case 0:
		return genPlaneLongTiny(t)
	default:
		return genAxisPlanar(t)
	}
}

const ruleCommon = " Kept only when CrossingSign==Cross (the documented domain). Oracle: exact integer (a0×a1)×(b0×b1), sign fixed by the edge bisectors; unit length, sin² of the angle to the exact point, hemisphere and equality of the 8 call forms are decided exactly; intersectionStable (when it accepts) and intersectionExact are also judged alone. Non-trivial = stable path rejected (exact path used), or sin(crossing angle) < 1e-9, or an edge shorter than 1e-100."

func init() {
	// rapid is single-threaded and the oracle allocates many short-lived big
	// integers; with the default GOMAXPROCS every one of the driver's 8/16
	// processes runs a 16-way parallel GC and the machine spends its time in
	// the kernel. Two Ps and a lazier GC make the same work ~10x cheaper.
	runtime.GOMAXPROCS(2)
	debug.SetGCPercent(800)
	ev.Define("generic", ev.Options{
		Rule:  "Constructed crossings: crossing point X from the shared point families, two tangent directions at 90°…1e-15, four endpoint distances (uniform, log-uniform 1e-17…π/2, π/2−1e-17…); edges of nearly 180° (endpoints within 1e-17…0.1 of antipodal); a0,a1,b0 from the related-point generator with b1 beyond a point of edge a; b0 exactly on the great circle of a (SoS-decided crossings at an endpoint); exactly collinear quadruples with 1–3 points moved by ≤3 ulps; an edge and its mirror image in a coordinate plane (exactly equal lengths)." + ruleCommon,
		Quick: 600000, Thorough: 28000000}, genGeneric, checkQuad)
	ev.Define("tiny_edges", ev.Options{
		Rule:  "Edges of length 1e-300…1e-9: all four endpoints (1,y,z) in the tangent plane next to a coordinate axis (crossing point 0 or tiny, any direction, crossing angle 90°…1e-15, four independent or common-scale distances, optionally far second endpoints), and a long edge exactly in a coordinate plane crossed by a tiny edge (x,y,∓t) at the start, middle or end of the long edge; all under signed axis permutations." + ruleCommon,
		Quick: 360000, Thorough: 16000000}, genTiny, checkQuad)
	ev.Define("collinear", ev.Options{
		Rule:  "Four points exactly on one great circle (9 planes that survive normalisation; positions ±1e-300…1.5 from an axis or ±1e-15…1.5 from a generic angle), paired interleaved or nested. X* = 0: the result must be an endpoint lying on the closed other edge (exact) or within the bound of both edges, identical in all 8 forms." + ruleCommon,
		Quick: 120000, Thorough: 6000000}, genCollinear, checkQuad)
}
