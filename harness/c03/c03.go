// Package c03: edge-crossing tests are exact, symmetric and independent of
// traversal state.
//
// Oracle: the four-orientation criterion (ACB, CBD, BDA, DAC all equal)
// evaluated with exact integer determinants and the independent SoS polynomial
// of internal/exact; MaybeCross iff a vertex of one edge is bit-identical to a
// vertex of the other; degenerate edges without a shared vertex never cross.
package c03

import (
	"fmt"
	"math"
	"sort"

	"github.com/golang/geo/r3"
	"github.com/golang/geo/s2"
	"pgregory.net/rapid"

	"verifharness/internal/ev"
	"verifharness/internal/exact"
	"verifharness/internal/gen"
)

// ---------------------------------------------------------------------------
// oracle

// oSign: exact determinant sign of |a b c|, SoS when it vanishes, 0 iff two
// points are identical.
func oSign(a, b, c s2.Point) int {
	if a == b || b == c || a == c {
		return 0
	}
	if d := exact.DetSign(a.Vector, b.Vector, c.Vector); d != 0 {
		return d
	}
	return exact.SoSSign(a.Vector, b.Vector, c.Vector)
}

// oracleCrossing is the documented result of CrossingSign(a,b,c,d).
func oracleCrossing(a, b, c, d s2.Point) s2.Crossing {
	if a == c || a == d || b == c || b == d {
		return s2.MaybeCross
	}
	if a == b || c == d {
		return s2.DoNotCross
	}
	acb := oSign(a, c, b)
	if oSign(b, d, a) != acb {
		return s2.DoNotCross
	}
	if oSign(c, b, d) != acb {
		return s2.DoNotCross
	}
	if oSign(d, a, c) != acb {
		return s2.DoNotCross
	}
	return s2.Cross
}

// antipodal reports whether b is an exact negative multiple of a (an edge with
// such endpoints is not a valid geodesic edge and is outside the domain).
func antipodal(a, b s2.Point) bool {
	if a.Dot(b.Vector) > -0.99 {
		return false
	}
	return exact.IsZero(exact.Cross(exact.IntVec(a.Vector), exact.IntVec(b.Vector)))
}

func allUnit(ps ...s2.Point) bool {
	for _, p := range ps {
		if !gen.Unit(p) {
			return false
		}
	}
	return true
}

// ---------------------------------------------------------------------------
// labelling helpers (they repeat the float arithmetic of the library's cheap
// stages; used for the class histogram, finding classes and one evidence
// ratio, never to decide pass/fail)

const tangentMaxError = (1.5 + 0.5773502691896258) * 2.220446049250313e-16

type tangentInfo struct {
	reject bool
	// largest computed dot/maxError over the (point, tangent) pairs whose exact
	// dot product is <= 0 (the point is NOT beyond the tangent plane)
	wrongSideRatio float64
}

func tangentLabel(a, b, c, d s2.Point) tangentInfo {
	norm := a.PointCross(b)
	at := a.Cross(norm.Vector)
	bt := norm.Cross(b.Vector)
	// when the float cross product vanishes (a == b, or closer than ~1e-154)
	// the library substitutes an arbitrary orthogonal vector: there is no exact
	// plane to compare with.
	fallback := a.Add(b.Vector).Cross(b.Sub(a.Vector)) == (r3.Vector{})
	ca, da := c.Dot(at), d.Dot(at)
	cb, db := c.Dot(bt), d.Dot(bt)
	ti := tangentInfo{}
	ti.reject = (ca > tangentMaxError && da > tangentMaxError) || (cb > tangentMaxError && db > tangentMaxError)
	// exact signs, only where the float value is positive enough to matter
	const look = 0.25 * tangentMaxError
	if !fallback && (ca > look || da > look || cb > look || db > look) {
		vs, _ := exact.IntVecs(a.Vector, b.Vector, c.Vector, d.Vector)
		A, B, C, D := vs[0], vs[1], vs[2], vs[3]
		N := exact.Cross(exact.Add(A, B), exact.Sub(B, A))
		if exact.IsZero(N) {
			return ti
		}
		AT := exact.Cross(A, N)
		BT := exact.Cross(N, B)
		upd := func(f float64, p, t exact.Vec) {
			if f > look && exact.Dot(p, t).Sign() <= 0 {
				if r := f / tangentMaxError; r > ti.wrongSideRatio {
					ti.wrongSideRatio = r
				}
			}
		}
		upd(ca, C, AT)
		upd(da, D, AT)
		upd(cb, C, BT)
		upd(db, D, BT)
	}
	return ti
}

// fastReject: c and d strictly on the same side of AB already by triageSign.
func fastReject(a, b, c, d s2.Point) bool {
	s := s2.VerifTriageSign(a, b, c)
	return s != 0 && s == s2.VerifTriageSign(a, b, d)
}

func shared(a, b, c, d s2.Point) int {
	n := 0
	for _, x := range []s2.Point{a, b} {
		if x == c || x == d {
			n++
		}
	}
	return n
}

func classify(a, b, c, d s2.Point) (class string, nontrivial bool, ti tangentInfo) {
	sh := a == c || a == d || b == c || b == d
	if fastReject(a, b, c, d) {
		if sh {
			return "fast-reject+shared", true, ti
		}
		return "fast-reject", false, ti
	}
	ti = tangentLabel(a, b, c, d)
	switch {
	case ti.reject:
		return "tangent-reject", true, ti
	case sh:
		return fmt.Sprintf("shared-%d", shared(a, b, c, d)), true, ti
	case a == b || c == d:
		return "degenerate-edge", true, ti
	}
	// four exact orientations needed
	zero := 0
	for _, t := range [][3]s2.Point{{a, c, b}, {c, b, d}, {b, d, a}, {d, a, c}} {
		if exact.DetSign(t[0].Vector, t[1].Vector, t[2].Vector) == 0 {
			zero++
		}
	}
	return fmt.Sprintf("signs-zero-dets=%d", zero), true, ti
}

// ---------------------------------------------------------------------------
// generators

func frame(a, b s2.Point) (u, n r3.Vector, ok bool) {
	nn := a.Cross(b.Vector)
	if nn.Norm2() < 1e-300 {
		return u, n, false
	}
	n = nn.Normalize()
	u = n.Cross(a.Vector).Normalize() // unit tangent at a pointing towards b
	return u, n, true
}

// tangentPoint draws a point next to the plane through a that is perpendicular
// to AB at a (the plane of the "outward tangent" early exit), at angle theta
// along that plane from a and offset delta along AB (negative: beyond a).
func tangentPoint(t *rapid.T, l string, a, b s2.Point) s2.Point {
	u, n, ok := frame(a, b)
	if !ok {
		return gen.Related(t, l, []s2.Point{a, b})
	}
	var theta float64
	switch rapid.IntRange(0, 9).Draw(t, l+".tk") {
	case 4:
		theta = 0
	case 3:
		theta = math.Pow(10, rapid.Float64Range(-17, -12).Draw(t, l+".te"))
	case 0, 2, 6, 8:
		theta = rapid.Float64Range(0.02, 1.55).Draw(t, l+".tu")
	default:
		theta = math.Pow(10, rapid.Float64Range(-12, 0.15).Draw(t, l+".te"))
	}
	if rapid.Bool().Draw(t, l+".tneg") {
		theta = -theta
	}
	var delta float64
	switch rapid.IntRange(0, 3).Draw(t, l+".dk") {
	case 0, 1:
		delta = float64(rapid.IntRange(-40, 40).Draw(t, l+".dq")) * 0x1p-54
	case 2:
		delta = -math.Pow(10, rapid.Float64Range(-17, -0.3).Draw(t, l+".de"))
	default:
		delta = math.Pow(10, rapid.Float64Range(-17, -0.3).Draw(t, l+".de"))
	}
	p := a.Mul(math.Cos(theta)).Add(n.Mul(math.Sin(theta))).Add(u.Mul(delta))
	q := gen.Fix(s2.Point{Vector: p.Normalize()}, a)
	if rapid.Bool().Draw(t, l+".pert") {
		q = gen.Perturb(t, l+".pp", q, 3)
	}
	return q
}

// edgeAB draws the fixed edge: arbitrary, long (~90 degrees, where the
// un-normalised cross product has length ~2), short, or related.
func edgeAB(t *rapid.T) (a, b s2.Point) {
	a = gen.Base(t, "a")
	switch rapid.IntRange(0, 4).Draw(t, "abk") {
	case 0:
		b = gen.Base(t, "b")
	case 1:
		// roughly perpendicular to a
		o := s2.Point{Vector: a.Ortho()}
		o2 := s2.Point{Vector: a.Cross(o.Vector).Normalize()}
		th := rapid.Float64Range(0, 2*math.Pi).Draw(t, "bdir")
		tilt := rapid.Float64Range(-0.3, 0.3).Draw(t, "btilt")
		v := o.Mul(math.Cos(th)).Add(o2.Mul(math.Sin(th))).Add(a.Mul(tilt))
		b = gen.Fix(s2.Point{Vector: v.Normalize()}, o)
	default:
		b = gen.Related(t, "b", []s2.Point{a})
	}
	return a, b
}

// notAnti returns p, or a fresh uniform point if p is exactly antipodal to one
// of the others (such pairs are outside the domain; constructing instead of
// filtering keeps the discard rate low).
func notAnti(t *rapid.T, l string, p s2.Point, others ...s2.Point) s2.Point {
	for _, o := range others {
		if antipodal(p, o) {
			return gen.Uniform(t, l+".re")
		}
	}
	return p
}

// fresh returns p, or a fresh uniform point if bad(p).
func fresh(t *rapid.T, l string, p s2.Point, bad func(s2.Point) bool) s2.Point {
	for i := 0; i < 3 && bad(p); i++ {
		p = gen.Uniform(t, fmt.Sprintf("%s.re%d", l, i))
	}
	return p
}

// tangentStress: (a, b, c) found by a directed random search (about 1e10
// samples) where c is NOT beyond the plane of the outward tangent at a in exact
// arithmetic but the library's float computation c·aTangent exceeds its
// maxError (2.08 eps) — up to 3.0 eps, because NewEdgeCrosser does not
// normalise PointCross(a,b) (|norm| is up to 2) while the error analysis quoted
// in crossingSign assumes a unit normal. No wrong CrossingSign answer is known;
// the family concentrates the search where the early exit is least safe.
var tangentStress = [][3]gen.P{
	{{-0.25213636108443954, -0.828740763744939, -0.4996158543586786}, {-0.6077073755915771, 0.542921926739973, -0.5795925526751992}, {-0.7804068768731942, -0.277054308523371, 0.5605408251480561}},
	{{-0.25213636108443954, -0.828740763744939, -0.4996158543586786}, {-0.6077073755915771, 0.542921926739973, -0.5795925526751992}, {-0.7731690365789202, -0.24012253389038898, 0.5869845054119258}},
	{{0.2483876412376378, 0.14858307653907998, 0.9571972884659592}, {0.45701861007899197, -0.7474379317748189, -0.4821519762332697}, {0.7451137083427618, 0.6385472459524504, -0.1925174701844965}},
	{{0.8081797207403238, -0.578030101203779, 0.11281285869279722}, {0.2845483067324234, 0.615869546160732, 0.7346679271939704}, {0.2201604824394609, -0.8062203921041731, 0.5491247957681548}},
	{{-0.599891732095895, -0.11621503994073878, 0.791595840220601}, {0.7310529768741051, -0.5998014846588465, 0.32526869508846473}, {-0.7387708257841541, -0.6152571917326186, 0.27509317510889086}},
	{{0.4221463332754615, -0.7993685986379507, -0.42755387591937677}, {-0.6373572780106669, 0.09409609779830873, -0.7648016896856102}, {0.7454151253131946, -0.215917836753784, -0.6306629676189025}},
	{{0.7425741458422478, 0.37882695697665925, -0.5523348392003357}, {-0.6995645635694845, 0.6212758014133504, -0.353023795198052}, {0.7657771539235483, 0.6027488976065849, -0.22423005365650037}},
	{{-0.801278826671119, -0.5930296227884595, -0.07917138639642479}, {-0.3960715455493964, 0.7266196107632553, 0.5613833557030061}, {-0.37532165235371134, -0.764469134776967, 0.5241379582207678}},
	{{0.14206612470562643, 0.6316641416425276, 0.7621139208636294}, {-0.646548594844418, -0.42768370822467544, 0.6317131945937962}, {-0.24224483248242853, 0.840429649092063, 0.4847632886910394}},
}

type quad struct{ A, B, C, D gen.P }

func mkQuad(a, b, c, d s2.Point) quad {
	return quad{gen.FromPt(a), gen.FromPt(b), gen.FromPt(c), gen.FromPt(d)}
}

func genQuad(t *rapid.T) quad {
	var a, b, c, d s2.Point
	// NB rapid's IntRange is strongly biased towards small values and the
	// maximum; the case numbers are ordered with that in mind.
	switch rapid.IntRange(0, 9).Draw(t, "family") {
	case 2, 8:
		ps := gen.Tuple(t, "p", 4)
		a, b, c, d = ps[0], ps[1], ps[2], ps[3]
	case 1, 6:
		ps := gen.CoplanarTuple(t, "p", 4)
		a, b, c, d = ps[0], ps[1], ps[2], ps[3]
	case 9:
		e := tangentStress[rapid.IntRange(0, len(tangentStress)-1).Draw(t, "stress")]
		a, b, c = e[0].Pt(), e[1].Pt(), e[2].Pt()
		switch rapid.IntRange(0, 2).Draw(t, "ck") {
		case 1:
			c = gen.Perturb(t, "cp", c, 3)
		case 2:
			c = tangentPoint(t, "c", a, b)
		}
		d = tangentPoint(t, "d", a, b)
		if rapid.Bool().Draw(t, "swapab") {
			a, b = b, a
		}
		if rapid.Bool().Draw(t, "swapcd") {
			c, d = d, c
		}
	case 0, 4, 7:
		// tangent early-exit region at a or at b
		a, b = edgeAB(t)
		if rapid.Bool().Draw(t, "atb") {
			a, b = b, a
		}
		c = tangentPoint(t, "c", a, b)
		if rapid.IntRange(0, 3).Draw(t, "dfree") == 0 {
			d = gen.Related(t, "d", []s2.Point{a, b, c})
		} else {
			d = tangentPoint(t, "d", a, b)
		}
		if rapid.Bool().Draw(t, "swapab") {
			a, b = b, a
		}
		if rapid.Bool().Draw(t, "swapcd") {
			c, d = d, c
		}
	case 5:
		// properly crossing by construction: c,d on either side of an interior point
		a, b = edgeAB(t)
		f := rapid.Float64Range(0, 1).Draw(t, "f")
		x := gen.Fix(s2.Interpolate(f, a, b), a)
		c = gen.Related(t, "c", []s2.Point{x, a, b})
		// d = reflection of c through x (approximately), with noise
		dv := x.Mul(2 * x.Dot(c.Vector)).Sub(c.Vector)
		d = gen.Fix(s2.Point{Vector: dv.Normalize()}, x)
		if rapid.Bool().Draw(t, "dn") {
			d = gen.Perturb(t, "dpp", d, 3)
		}
	default:
		a, b = edgeAB(t)
		c = gen.Related(t, "c", []s2.Point{a, b})
		d = gen.Related(t, "d", []s2.Point{a, b, c})
	}
	b = notAnti(t, "b", b, a)
	d = notAnti(t, "d", d, c)
	// forced vertex sharing / degeneracy
	switch rapid.IntRange(0, 59).Draw(t, "share") {
	case 20:
		c = a
	case 21:
		d = b
	case 22:
		c, d = a, b
	case 23:
		c, d = b, a
	case 24:
		b = a
	case 25:
		d = c
	case 26:
		b, c = a, a
	case 27:
		b, c, d = a, a, a
	case 28:
		d = a
	case 29:
		c = b
	}
	if antipodal(c, d) { // only after forced sharing on an (allowed) cross-edge antipodal pair
		d = gen.Uniform(t, "d.re2")
	}
	return mkQuad(a, b, c, d)
}

func inDomain(a, b, c, d s2.Point) bool {
	return allUnit(a, b, c, d) && !antipodal(a, b) && !antipodal(c, d)
}

// ---------------------------------------------------------------------------
// a) CrossingSign == oracle

func crossingFinding(a, b, c, d s2.Point, got, want s2.Crossing, ti tangentInfo) string {
	switch {
	case want == s2.Cross && got == s2.DoNotCross && ti.reject:
		return "tangent-false-reject"
	case want == s2.MaybeCross && got == s2.DoNotCross && ti.reject:
		return "tangent-reject-shared-vertex"
	case want == s2.MaybeCross && got != s2.MaybeCross:
		return "shared-vertex-not-maybe"
	case want != s2.MaybeCross && got == s2.MaybeCross:
		return "maybe-without-shared-vertex"
	case want == s2.Cross:
		return "missed-crossing"
	default:
		return "false-crossing"
	}
}

func checkCrossingSign(q quad) ev.Outcome {
	a, b, c, d := q.A.Pt(), q.B.Pt(), q.C.Pt(), q.D.Pt()
	o := ev.Outcome{}
	if !inDomain(a, b, c, d) {
		o.Skip = true
		return o
	}
	var ti tangentInfo
	o.Class, o.NonTrivial, ti = classify(a, b, c, d)
	want := oracleCrossing(a, b, c, d)
	got := s2.CrossingSign(a, b, c, d)
	o.Class += "/" + want.String()
	if ti.wrongSideRatio > 0 {
		o.Ratios = map[string]float64{"tangent_dot_of_point_not_beyond_plane/maxError": ti.wrongSideRatio}
	}
	if got != want {
		o.Err = fmt.Sprintf("CrossingSign=%v want %v (class %s)", got, want, o.Class)
		o.Finding = crossingFinding(a, b, c, d, got, want, ti)
		return o
	}
	// the method on a fresh crosser and the EdgeOrVertex wrapper agree with it
	if g := s2.NewEdgeCrosser(a, b).CrossingSign(c, d); g != want {
		o.Err = fmt.Sprintf("NewEdgeCrosser(a,b).CrossingSign(c,d)=%v want %v", g, want)
		return o
	}
	return o
}

// ---------------------------------------------------------------------------
// b) symmetry: 8 forms (no oracle)

func checkSymmetry(q quad) ev.Outcome {
	a, b, c, d := q.A.Pt(), q.B.Pt(), q.C.Pt(), q.D.Pt()
	o := ev.Outcome{}
	if !inDomain(a, b, c, d) {
		o.Skip = true
		return o
	}
	var ti tangentInfo
	o.Class, o.NonTrivial, ti = classify(a, b, c, d)
	_ = ti
	forms := [8][4]s2.Point{{a, b, c, d}, {b, a, c, d}, {a, b, d, c}, {b, a, d, c}, {c, d, a, b}, {d, c, a, b}, {c, d, b, a}, {d, c, b, a}}
	names := [8]string{"abcd", "bacd", "abdc", "badc", "cdab", "dcab", "cdba", "dcba"}
	var res [8]s2.Crossing
	for i, f := range forms {
		res[i] = s2.CrossingSign(f[0], f[1], f[2], f[3])
	}
	for i := 1; i < 8; i++ {
		if res[i] != res[0] {
			o.Err = fmt.Sprintf("CrossingSign(%s)=%v but CrossingSign(%s)=%v (class %s)", names[0], res[0], names[i], res[i], o.Class)
			o.Finding = "asymmetric"
			// same root cause as the oracle sub-check when a tangent early exit is involved
			for _, f := range forms {
				if tangentLabel(f[0], f[1], f[2], f[3]).reject && !fastReject(f[0], f[1], f[2], f[3]) {
					o.Finding = "asymmetric-tangent"
				}
			}
			return o
		}
	}
	o.Class += "/" + res[0].String()
	// EdgeOrVertexCrossing is not symmetric in general, but is invariant under
	// reversing either edge.
	if shared(a, b, c, d) > 0 || res[0] != s2.MaybeCross {
		e0 := s2.EdgeOrVertexCrossing(a, b, c, d)
		for i := 1; i < 4; i++ {
			f := forms[i]
			if e := s2.EdgeOrVertexCrossing(f[0], f[1], f[2], f[3]); e != e0 {
				o.Err = fmt.Sprintf("EdgeOrVertexCrossing(abcd)=%v but (%s)=%v", e0, names[i], e)
				o.Finding = "eov-reversal"
				return o
			}
		}
	}
	return o
}

// ---------------------------------------------------------------------------
// c) state machine

type op struct {
	K int // 0 CrossingSign(P[I],P[J]) 1 ChainCrossingSign(P[J]) 2 RestartAt(P[I]) 3 EdgeOrVertexCrossing(P[I],P[J]) 4 EdgeOrVertexChainCrossing(P[J])
	I int
	J int
}

type hist struct {
	A, B  gen.P
	P     []gen.P
	Chain bool // construct with NewChainEdgeCrosser(a,b,P[C0])
	C0    int
	Ops   []op
}

func genHist(t *rapid.T) hist {
	var a, b s2.Point
	var pool []s2.Point
	n := rapid.IntRange(2, 8).Draw(t, "n")
	fam := rapid.IntRange(0, 4).Draw(t, "family")
	switch fam {
	case 1:
		// everything exactly on one great circle
		ps := gen.CoplanarTuple(t, "p", n+2)
		a, b = ps[0], notAnti(t, "b", ps[1], ps[0])
		for i, p := range ps[2:] {
			pool = append(pool, notAnti(t, fmt.Sprintf("v%d", i), p, pool...))
		}
	default:
		a, b = edgeAB(t)
		b = notAnti(t, "b", b, a)
		for i := 0; i < n; i++ {
			l := fmt.Sprintf("v%d", i)
			prev := append([]s2.Point{a, b}, pool...)
			var p s2.Point
			switch rapid.IntRange(0, 7).Draw(t, l+".k") {
			case 2:
				p = a
			case 3:
				p = b
			case 1, 4:
				if rapid.Bool().Draw(t, l+".end") {
					p = tangentPoint(t, l, a, b)
				} else {
					p = tangentPoint(t, l, b, a)
				}
			case 5:
				p = gen.Base(t, l)
			default:
				p = gen.Related(t, l, prev)
			}
			pool = append(pool, notAnti(t, l, p, pool...))
		}
	}
	if rapid.IntRange(0, 14).Draw(t, "degAB") == 0 {
		b = a
	}
	h := hist{A: gen.FromPt(a), B: gen.FromPt(b), P: gen.FromPts(pool)}
	h.Chain = rapid.Bool().Draw(t, "chain")
	h.C0 = rapid.IntRange(0, n-1).Draw(t, "c0")
	m := rapid.IntRange(1, 40).Draw(t, "nops")
	prevJ := h.C0
	for k := 0; k < m; k++ {
		l := fmt.Sprintf("op%d", k)
		o := op{K: rapid.SampledFrom([]int{0, 0, 1, 1, 1, 2, 3, 4}).Draw(t, l+".k")}
		o.J = rapid.IntRange(0, n-1).Draw(t, l+".j")
		if rapid.IntRange(0, 2).Draw(t, l+".cont") > 0 {
			o.I = prevJ
		} else {
			o.I = rapid.IntRange(0, n-1).Draw(t, l+".i")
		}
		if o.K == 2 {
			prevJ = o.I
		} else {
			prevJ = o.J
		}
		h.Ops = append(h.Ops, o)
	}
	return h
}

func checkHist(h hist) ev.Outcome {
	a, b := h.A.Pt(), h.B.Pt()
	P := gen.Pts(h.P)
	o := ev.Outcome{}
	n := len(P)
	if n == 0 || len(h.Ops) == 0 || !allUnit(a, b) || !allUnit(P...) || antipodal(a, b) {
		o.Skip = true
		return o
	}
	for i := 0; i < n; i++ {
		for j := i + 1; j < n; j++ {
			if antipodal(P[i], P[j]) {
				o.Skip = true
				return o
			}
		}
	}
	idx := func(i int) int { return ((i % n) + n) % n }
	var e *s2.EdgeCrosser
	cur := -1
	if h.Chain {
		cur = idx(h.C0)
		e = s2.NewChainEdgeCrosser(a, b, P[cur])
	} else {
		e = s2.NewEdgeCrosser(a, b)
	}
	restarts, slow, chained, maybe, cross := 0, 0, 0, 0, 0
	for k, x := range h.Ops {
		i, j := idx(x.I), idx(x.J)
		kind := x.K
		if kind < 0 || kind > 4 {
			kind = 0
		}
		if cur < 0 && (kind == 1 || kind == 4) {
			kind-- // a chain call before any start vertex is a misuse: use the two-vertex form
		}
		if kind == 2 {
			e.RestartAt(P[i])
			cur = i
			restarts++
			continue
		}
		var c s2.Point
		if kind == 0 || kind == 3 {
			c = P[i]
			if cur < 0 || P[cur] != c {
				restarts++
			} else {
				chained++
			}
		} else {
			c = P[cur]
			chained++
		}
		d := P[j]
		want := oracleCrossing(a, b, c, d)
		if !fastReject(a, b, c, d) {
			slow++
		}
		switch want {
		case s2.MaybeCross:
			maybe++
		case s2.Cross:
			cross++
		}
		var name string
		var bad bool
		var gotS string
		switch kind {
		case 0, 1:
			var got s2.Crossing
			if kind == 0 {
				name = "CrossingSign(c,d)"
				got = e.CrossingSign(c, d)
			} else {
				name = "ChainCrossingSign(d)"
				got = e.ChainCrossingSign(d)
			}
			bad, gotS = got != want, got.String()
		default:
			var got bool
			if kind == 3 {
				name = "EdgeOrVertexCrossing(c,d)"
				got = e.EdgeOrVertexCrossing(c, d)
			} else {
				name = "EdgeOrVertexChainCrossing(d)"
				got = e.EdgeOrVertexChainCrossing(d)
			}
			wantB := want == s2.Cross || (want == s2.MaybeCross && s2.VertexCrossing(a, b, c, d))
			bad, gotS = got != wantB, fmt.Sprintf("%v (oracle CrossingSign %v, expected %v)", got, want, wantB)
		}
		cur = j
		if bad {
			o.Err = fmt.Sprintf("op %d %s on crosser: got %s want %v; c=P[%d] d=P[%d]", k, name, gotS, want, idx(x.I), j)
			// is it the crosser's state, or does the stateless call fail the same way?
			if st := s2.CrossingSign(a, b, c, d); st != want {
				o.Finding = crossingFinding(a, b, c, d, st, want, tangentLabel(a, b, c, d))
				o.Err += fmt.Sprintf(" (stateless CrossingSign=%v is wrong as well)", st)
			} else {
				o.Finding = "crosser-state"
			}
			return o
		}
	}
	o.NonTrivial = restarts >= 1 && slow >= 1
	o.Counts = map[string]int{"ops": len(h.Ops), "restarts": restarts, "slow_path_calls": slow, "chained_calls": chained, "oracle_maybe": maybe, "oracle_cross": cross}
	switch {
	case slow == 0:
		o.Class = "all-fast"
	case cross > 0 && maybe > 0:
		o.Class = "slow+cross+maybe"
	case cross > 0:
		o.Class = "slow+cross"
	case maybe > 0:
		o.Class = "slow+maybe"
	default:
		o.Class = "slow"
	}
	return o
}

// ---------------------------------------------------------------------------
// d) VertexCrossing documented properties, EdgeOrVertexCrossing consistency

func genVC(t *rapid.T) quad {
	var ps []s2.Point
	switch rapid.IntRange(0, 3).Draw(t, "family") {
	case 0:
		ps = gen.CoplanarTuple(t, "p", 4)
	case 1:
		a, b := edgeAB(t)
		c := gen.Related(t, "c", []s2.Point{a, b})
		d := gen.Related(t, "d", []s2.Point{a, b, c})
		ps = []s2.Point{a, b, c, d}
	default:
		ps = gen.Tuple(t, "p", 4)
	}
	a, b, c, d := ps[0], ps[1], ps[2], ps[3]
	b = notAnti(t, "b", b, a)
	d = notAnti(t, "d", d, c)
	// the reference direction used for the sweep is Ortho(shared vertex): put
	// an edge exactly on it now and then
	switch rapid.IntRange(0, 7).Draw(t, "ref") {
	case 0:
		b = gen.Fix(s2.Ortho(a), b)
	case 1:
		d = gen.Fix(s2.Ortho(a), d)
	case 2:
		a = gen.Fix(s2.Ortho(b), a)
	}
	switch rapid.IntRange(0, 13).Draw(t, "share") {
	case 0:
		c = a
	case 1:
		d = a
	case 2:
		c = b
	case 3:
		d = b
	case 4:
		c, d = a, b
	case 5:
		c, d = b, a
	case 6:
		b = a
	case 7:
		d = c
	case 8:
		b, c = a, a
	case 9:
		b, c, d = a, a, a
	case 10:
		c, d = a, a
	case 11:
		b, d = a, c
	default:
		// one shared vertex, chosen position
		k := rapid.IntRange(0, 3).Draw(t, "sk")
		switch k {
		case 0:
			c = a
		case 1:
			d = a
		case 2:
			c = b
		default:
			d = b
		}
	}
	if antipodal(c, d) {
		d = gen.Uniform(t, "d.re2")
	}
	if antipodal(a, b) {
		b = gen.Uniform(t, "b.re2")
	}
	return mkQuad(a, b, c, d)
}

func checkVC(q quad) ev.Outcome {
	a, b, c, d := q.A.Pt(), q.B.Pt(), q.C.Pt(), q.D.Pt()
	o := ev.Outcome{}
	if !allUnit(a, b, c, d) || antipodal(a, b) || antipodal(c, d) {
		o.Skip = true
		return o
	}
	sh := shared(a, b, c, d)
	distinct := map[s2.Point]bool{a: true, b: true, c: true, d: true}
	o.Class = fmt.Sprintf("distinct=%d shared=%d", len(distinct), sh)
	if a == b || c == d {
		o.Class += " degenerate"
	}
	o.NonTrivial = len(distinct) < 4
	VC := s2.VertexCrossing
	// (1)
	if VC(a, a, c, d) {
		o.Err, o.Finding = "VC(a,a,c,d) is true", "vc-prop1"
		return o
	}
	if VC(a, b, c, c) {
		o.Err, o.Finding = "VC(a,b,c,c) is true", "vc-prop1"
		return o
	}
	if VC(a, a, a, d) || VC(a, a, c, a) || VC(a, b, a, a) || VC(a, b, b, b) || VC(a, a, a, a) {
		o.Err, o.Finding = "VC with a degenerate edge and 3+ identical vertices is true", "vc-prop1"
		return o
	}
	// (2)
	if a != b && !(VC(a, b, a, b) && VC(a, b, b, a)) {
		o.Err, o.Finding = "VC(a,b,a,b) or VC(a,b,b,a) is false", "vc-prop2"
		return o
	}
	if len(distinct) < 4 && (sh > 0 || a == b || c == d) {
		// (3)
		v := VC(a, b, c, d)
		if g := [3]bool{VC(a, b, d, c), VC(b, a, c, d), VC(b, a, d, c)}; g[0] != v || g[1] != v || g[2] != v {
			o.Err = fmt.Sprintf("VC(a,b,c,d)=%v but VC(a,b,d,c)=%v VC(b,a,c,d)=%v VC(b,a,d,c)=%v", v, g[0], g[1], g[2])
			o.Finding = "vc-prop3"
			return o
		}
		// (4) exactly one shared vertex between two non-degenerate edges
		if a != b && c != d && sh == 1 {
			if w := VC(c, d, a, b); w == v {
				o.Err = fmt.Sprintf("exactly one vertex shared but VC(a,b,c,d)=%v and VC(c,d,a,b)=%v", v, w)
				o.Finding = "vc-exactly-one"
				return o
			}
			o.Class += " one-shared"
		}
	}
	// EdgeOrVertexCrossing == oracle crossing, VertexCrossing on a shared vertex
	want := oracleCrossing(a, b, c, d)
	wantB := want == s2.Cross || (want == s2.MaybeCross && VC(a, b, c, d))
	if got := s2.EdgeOrVertexCrossing(a, b, c, d); got != wantB {
		o.Err = fmt.Sprintf("EdgeOrVertexCrossing=%v want %v (oracle CrossingSign %v)", got, wantB, want)
		if st := s2.CrossingSign(a, b, c, d); st != want {
			o.Finding = crossingFinding(a, b, c, d, st, want, tangentLabel(a, b, c, d))
		} else {
			o.Finding = "eov-inconsistent"
		}
		return o
	}
	if got := s2.NewEdgeCrosser(a, b).EdgeOrVertexCrossing(c, d); got != wantB {
		o.Err = fmt.Sprintf("crosser.EdgeOrVertexCrossing=%v want %v", got, wantB)
		o.Finding = "eov-inconsistent"
		return o
	}
	return o
}

// ---------------------------------------------------------------------------
// e) crossing parity around a vertex: for a polygon corner A,B,C and a segment
// BP, (VC(B,P,A,B) + VC(B,P,B,C)) mod 2 changes exactly when the ray BP passes
// BA or BC (documented in VertexCrossing).

type corner struct{ A, B, C, P, Q gen.P }

func genCorner(t *rapid.T) corner {
	var ps []s2.Point
	switch rapid.IntRange(0, 3).Draw(t, "family") {
	case 0:
		ps = gen.CoplanarTuple(t, "p", 5)
	default:
		b := gen.Base(t, "b")
		ps = []s2.Point{b}
		for i := 0; i < 4; i++ {
			l := fmt.Sprintf("r%d", i)
			var p s2.Point
			switch rapid.IntRange(0, 5).Draw(t, l+".k") {
			case 0:
				p = gen.Fix(s2.Ortho(b), b)
			case 1:
				p = gen.Base(t, l)
			default:
				p = gen.Related(t, l, ps)
			}
			ps = append(ps, p)
		}
		// order: B first -> A,B,C,P,Q
		ps = []s2.Point{ps[1], ps[0], ps[2], ps[3], ps[4]}
	}
	b := ps[1]
	offB := func(x s2.Point) bool { return x == b || antipodal(x, b) }
	ps[0] = fresh(t, "a", ps[0], offB)
	ps[2] = fresh(t, "c", ps[2], func(x s2.Point) bool { return offB(x) || x == ps[0] })
	ps[3] = fresh(t, "p", ps[3], func(x s2.Point) bool { return offB(x) || x == ps[0] || x == ps[2] })
	ps[4] = fresh(t, "q", ps[4], func(x s2.Point) bool { return offB(x) || x == ps[0] || x == ps[2] })
	return corner{gen.FromPt(ps[0]), gen.FromPt(ps[1]), gen.FromPt(ps[2]), gen.FromPt(ps[3]), gen.FromPt(ps[4])}
}

// inRange: ray OP lies in the CCW range from ray OA to ray OC (all distinct;
// orientation by the exact oracle, which is never zero for distinct points).
func inRange(a, p, c, o s2.Point) bool {
	s := 0
	if oSign(o, a, p) > 0 {
		s++
	}
	if oSign(o, p, c) > 0 {
		s++
	}
	if oSign(o, c, a) > 0 {
		s++
	}
	return s >= 2
}

func checkCorner(k corner) ev.Outcome {
	a, b, c, p, q := k.A.Pt(), k.B.Pt(), k.C.Pt(), k.P.Pt(), k.Q.Pt()
	o := ev.Outcome{}
	if !allUnit(a, b, c, p, q) {
		o.Skip = true
		return o
	}
	for _, x := range []s2.Point{a, c, p, q} {
		if x == b || antipodal(x, b) {
			o.Skip = true
			return o
		}
	}
	if a == c || p == a || p == c || q == a || q == c {
		o.Skip = true
		return o
	}
	par := func(x s2.Point) bool {
		return s2.VertexCrossing(b, x, a, b) != s2.VertexCrossing(b, x, b, c)
	}
	zero := 0
	for _, tr := range [][2]s2.Point{{a, p}, {p, c}, {c, a}, {a, q}, {q, c}, {p, q}} {
		if exact.DetSign(b.Vector, tr[0].Vector, tr[1].Vector) == 0 {
			zero++
		}
	}
	o.NonTrivial = zero > 0
	inP, inQ := inRange(a, p, c, b), inRange(a, q, c, b)
	o.Class = fmt.Sprintf("zero-dets=%d same-wedge=%v", zero, inP == inQ)
	if p == q {
		o.Class = "p==q"
	}
	if (par(p) != par(q)) != (inP != inQ) {
		o.Err = fmt.Sprintf("crossing parity of BP and BQ against corner ABC: parity(P)=%v parity(Q)=%v but P in wedge A->C: %v, Q: %v", par(p), par(q), inP, inQ)
		o.Finding = "vertex-parity"
		return o
	}
	// the same through EdgeOrVertexCrossing on one crosser walking the chain A,B,C
	cr := s2.NewChainEdgeCrosser(b, p, a)
	n := 0
	if cr.EdgeOrVertexChainCrossing(b) {
		n++
	}
	if cr.EdgeOrVertexChainCrossing(c) {
		n++
	}
	// edges AB and BC both share B with BP, so both results are vertex crossings
	if (n%2 == 1) != par(p) {
		o.Err = fmt.Sprintf("chain crosser over A,B,C against BP counts %d crossings, VertexCrossing parity is %v", n, par(p))
		o.Finding = "vertex-parity-crosser"
		return o
	}
	return o
}

// ---------------------------------------------------------------------------
// f) AngleContainsVertex properties (1)-(3)

type fan struct {
	B gen.P
	V []gen.P
}

func genFan(t *rapid.T) fan {
	k := rapid.IntRange(2, 7).Draw(t, "k")
	var b s2.Point
	var vs []s2.Point
	if rapid.IntRange(0, 3).Draw(t, "family") == 0 {
		ps := gen.CoplanarTuple(t, "p", k+1)
		b, vs = ps[0], ps[1:]
	} else {
		b = gen.Base(t, "b")
		for i := 0; i < k; i++ {
			l := fmt.Sprintf("v%d", i)
			var p s2.Point
			switch rapid.IntRange(0, 6).Draw(t, l+".k") {
			case 0:
				p = gen.Fix(s2.Ortho(b), b)
			case 1:
				p = gen.Base(t, l)
			default:
				p = gen.Related(t, l, append([]s2.Point{b}, vs...))
			}
			vs = append(vs, p)
		}
	}
	for i := range vs {
		vs[i] = fresh(t, fmt.Sprintf("v%d", i), vs[i], func(x s2.Point) bool {
			if x == b || antipodal(x, b) {
				return true
			}
			for _, y := range vs[:i] {
				if x == y {
					return true
				}
			}
			return false
		})
	}
	return fan{gen.FromPt(b), gen.FromPts(vs)}
}

func checkFan(f fan) ev.Outcome {
	b := f.B.Pt()
	vs := gen.Pts(f.V)
	o := ev.Outcome{}
	if len(vs) < 2 || !allUnit(b) || !allUnit(vs...) {
		o.Skip = true
		return o
	}
	seen := map[s2.Point]bool{}
	for _, v := range vs {
		if v == b || antipodal(v, b) || seen[v] {
			o.Skip = true
			return o
		}
		seen[v] = true
	}
	// (1), (2)
	for i := range vs {
		if s2.AngleContainsVertex(vs[i], b, vs[i]) {
			o.Err, o.Finding = "AngleContainsVertex(a,b,a) is true", "acv-prop1"
			return o
		}
		j := (i + 1) % len(vs)
		if s2.AngleContainsVertex(vs[i], b, vs[j]) == s2.AngleContainsVertex(vs[j], b, vs[i]) {
			o.Err, o.Finding = "AngleContainsVertex(a,b,c) == AngleContainsVertex(c,b,a) for a != c", "acv-prop2"
			return o
		}
	}
	// sort CCW around b by the exact oracle, starting at vs[0]
	v0 := vs[0]
	half := func(v s2.Point) int {
		if v == v0 {
			return 0
		}
		if oSign(b, v0, v) > 0 {
			return 1
		}
		return 2
	}
	order := append([]s2.Point(nil), vs...)
	zero := 0
	sort.SliceStable(order, func(i, j int) bool {
		hi, hj := half(order[i]), half(order[j])
		if hi != hj {
			return hi < hj
		}
		if hi == 0 {
			return false
		}
		return oSign(b, order[i], order[j]) > 0
	})
	for i := range vs {
		for j := i + 1; j < len(vs); j++ {
			if exact.DetSign(b.Vector, vs[i].Vector, vs[j].Vector) == 0 {
				zero++
			}
		}
	}
	// the order must be a consistent cyclic order (sanity of the oracle's sort)
	k := len(order)
	for i := 0; i < k; i++ {
		for j := 1; j < k-1; j++ {
			// order[i], order[i+j], order[i+j+1] are encountered in this order CCW
			x, y, z := order[i], order[(i+j)%k], order[(i+j+1)%k]
			if !inRange(x, y, z, b) {
				o.Err = "harness: exact cyclic sort is inconsistent"
				o.Finding = "harness"
				return o
			}
		}
	}
	count := 0
	for i := 0; i < k; i++ {
		if s2.AngleContainsVertex(order[(i+1)%k], b, order[i]) {
			count++
		}
	}
	o.NonTrivial = zero > 0 || seen[s2.Ortho(b)]
	o.Class = fmt.Sprintf("k=%d", k)
	if zero > 0 {
		o.Class += " collinear-rays"
	}
	if seen[s2.Ortho(b)] {
		o.Class += " ref-dir-ray"
	}
	if count != 1 {
		o.Err = fmt.Sprintf("%d rays sorted CCW around b: AngleContainsVertex(v[i+1],b,v[i]) true for %d values of i, want exactly 1", k, count)
		o.Finding = "acv-prop3"
		return o
	}
	return o
}

func init() {
	ev.Define("crossing_sign_oracle", ev.Options{
		Rule:  "quadruples: related/general tuples, 4 points exactly on one great circle, c,d next to the planes of the outward-tangent early exit at a or b (offset 0..±40·2^-54 or 1e-17..0.5 along AB, any angle around it, ±3 ulps; AB long/short/related; plus 9 stored (a,b,c) where the float tangent test is known to exceed its error bound), crossing by construction, forced sharing of 1-4 vertices and degenerate edges. Excluded (skipped): non-unit points, exactly antipodal a,b or c,d. Oracle = four exact orientations (integer determinant, independent SoS), MaybeCross iff bit-identical vertex shared, degenerate edge -> DoNotCross. Non-trivial = triageSign does not already put c,d strictly on one side of AB, or a vertex is shared.",
		Quick: 300000, Thorough: 12000000}, genQuad, checkCrossingSign)
	ev.Define("crossing_sign_symmetry", ev.Options{
		Rule:  "same quadruples; the 8 forms (reverse AB, reverse CD, swap edges) of CrossingSign are equal; EdgeOrVertexCrossing invariant under reversing either edge. Non-trivial as for crossing_sign_oracle.",
		Quick: 300000, Thorough: 12000000}, genQuad, checkSymmetry)
	ev.Define("crosser_history", ev.Options{
		Rule:  "one EdgeCrosser(a,b) (or NewChainEdgeCrosser) and 1..40 ops drawn as data over a pool of 2..8 vertices (copies of a and b, tangent-region points, related points, or everything exactly on one great circle; AB degenerate in 1/15): CrossingSign(c,d) (2/3 continuing the chain), ChainCrossingSign(d), RestartAt(c), EdgeOrVertexCrossing(c,d), EdgeOrVertexChainCrossing(d). After every call the answer must equal the exact oracle for (model's current c, d). Non-trivial = >=1 restart and >=1 call where triageSign does not put c,d strictly on one side of AB.",
		Quick: 40000, Thorough: 1800000}, genHist, checkHist)
	ev.Define("vertex_crossing_props", ev.Options{
		Rule:  "quadruples with forced sharing patterns (one shared vertex in each of the 4 positions, two shared, degenerate edges, 3 and 4 identical, an edge exactly along Ortho(shared vertex)): VertexCrossing properties (1),(2),(3), exactly-one-of VC(a,b,c,d)/VC(c,d,a,b) for one shared vertex; EdgeOrVertexCrossing (function and method) == oracle Cross, or VertexCrossing when the oracle says MaybeCross. Non-trivial = fewer than 4 distinct points.",
		Quick: 150000, Thorough: 6000000}, genVC, checkVC)
	ev.Define("vertex_crossing_parity", ev.Options{
		Rule:  "corner A,B,C and two more points P,Q (related points, exactly coplanar families, the reference direction Ortho(B)); the parity VC(B,P,A,B) xor VC(B,P,B,C) differs between P and Q iff exactly one of the rays BP,BQ lies in the CCW wedge from BA to BC by the exact oracle; the chain crosser over A,B,C counts the same parity. Non-trivial = at least one of the six ray pairs is exactly collinear with B.",
		Quick: 100000, Thorough: 4500000}, genCorner, checkCorner)
	ev.Define("angle_contains_vertex", ev.Options{
		Rule:  "2..7 distinct rays from b (related points, exactly coplanar, the reference direction Ortho(b)), sorted CCW around b with the exact oracle (sort verified to be a cyclic order): AngleContainsVertex(v[i+1],b,v[i]) true for exactly one i; properties (1),(2). Non-trivial = two rays exactly collinear with b or a ray along Ortho(b).",
		Quick: 60000, Thorough: 3000000}, genFan, checkFan)
}
