package c13

import (
	"fmt"
	"math"
	"reflect"
	"sort"

	"github.com/golang/geo/s1"
	"github.com/golang/geo/s2"
	"pgregory.net/rapid"

	"verifharness/internal/ev"
	"verifharness/internal/gen"
)

// idxOp is one operation of an index history.
type idxOp struct {
	// Kind: add | build | reset | contains | crossings | closest | cells | counts | locate | region
	Kind  string
	Shape int    // add: pool position
	P     gen.P  // contains: the point; crossings: edge start
	B     gen.P  // crossings: edge end
	Model int    // contains: vertex model 0..2
	All   bool   // crossings: CrossingTypeAll
	Cell  uint64 // locate: the cell for LocateCellID
	T     tspec  // closest: target
	Cfg   qcfg   // closest: options
	M     string // closest: FindEdges | Distance
}

type idxHistory struct {
	Pool []gen.ShapeSpec
	Ops  []idxOp
}

func genIndexHistory(t *rapid.T) idxHistory {
	maxOps := 25
	maxEdges := 200
	if ev.Thorough() {
		maxOps = 60
		if rapid.IntRange(0, 9).Draw(t, "bigpool") == 0 {
			maxEdges = 1200
		}
	}
	if rapid.IntRange(0, 3).Draw(t, "smallpool") == 0 {
		maxEdges = 40
	}
	pool := drawPoolWithEmpties(t, "pool", 6, maxEdges)
	verts := allVerts(pool)
	n := rapid.IntRange(3, maxOps).Draw(t, "nops")
	h := idxHistory{Pool: pool}
	for i := 0; i < n; i++ {
		l := fmt.Sprintf("op%d", i)
		var op idxOp
		k := rapid.IntRange(0, 19).Draw(t, l+".k")
		if i == 0 {
			k = 0
		}
		switch {
		case k <= 5:
			op = idxOp{Kind: "add", Shape: rapid.IntRange(0, len(pool)-1).Draw(t, l+".shape")}
		case k <= 8:
			op = idxOp{Kind: "build"}
		case k == 9:
			op = idxOp{Kind: "reset"}
		case k <= 12:
			op = idxOp{Kind: "contains", P: gen.ProbePoints(t, l+".p", verts, 1)[0], Model: rapid.IntRange(0, 2).Draw(t, l+".model")}
		case k <= 14:
			ps := gen.ProbePoints(t, l+".e", verts, 2)
			a, b := ps[0].Pt(), ps[1].Pt()
			if a.Dot(b.Vector) < -0.9 { // keep away from antipodal query edges
				b = gen.Fix(s2.Interpolate(0.3, a, b), a)
			}
			op = idxOp{Kind: "crossings", P: gen.FromPt(a), B: gen.FromPt(b), All: rapid.Bool().Draw(t, l+".all")}
		case k <= 17:
			ts := drawTarget(t, l+".t", verts, false)
			cfg := qcfg{Furthest: rapid.IntRange(0, 3).Draw(t, l+".far") == 0, Limit: -1,
				Interiors: rapid.Bool().Draw(t, l+".int"), Brute: rapid.IntRange(0, 4).Draw(t, l+".brute") == 0}
			cfg.K = rapid.SampledFrom([]int{0, 0, 1, 1, 2, 3, 7, 50}).Draw(t, l+".K")
			if rapid.IntRange(0, 2).Draw(t, l+".lim") == 0 {
				cfg.Limit = drawLimit(t, l+".limit", ts, verts)
			}
			op = idxOp{Kind: "closest", T: ts, Cfg: cfg, M: rapid.SampledFrom([]string{"FindEdges", "FindEdges", "Distance"}).Draw(t, l+".m")}
		case k == 18 && rapid.Bool().Draw(t, l+".region"):
			// bounds through ONE long-lived ShapeIndexRegion (taken at its first use)
			op = idxOp{Kind: "region"}
		case k == 18:
			op = idxOp{Kind: "cells"}
			if rapid.Bool().Draw(t, l+".locate") {
				p := gen.ProbePoints(t, l+".lp", verts, 1)[0]
				op = idxOp{Kind: "locate", P: p, Cell: uint64(s2.CellFromPoint(p.Pt()).ID().Parent(rapid.IntRange(0, 30).Draw(t, l+".lvl")))}
			}
		default:
			op = idxOp{Kind: "counts"}
		}
		h.Ops = append(h.Ops, op)
	}
	// always end on a structural comparison
	h.Ops = append(h.Ops, idxOp{Kind: "cells"})
	return h
}

var vertexModels = []s2.VertexModel{s2.VertexModelOpen, s2.VertexModelSemiOpen, s2.VertexModelClosed}

func crossType(all bool) s2.CrossingType {
	if all {
		return s2.CrossingTypeAll
	}
	return s2.CrossingTypeInterior
}

// edgeMapByPos turns an EdgeMap into position-keyed plain data.
func edgeMapByPos(m s2.EdgeMap, shapes []s2.Shape) map[int][]int {
	out := map[int][]int{}
	for s, e := range m {
		out[shapePos(shapes, s)] = append([]int(nil), e...)
	}
	return out
}

func positions(found, shapes []s2.Shape) []int {
	out := make([]int, len(found))
	for i, s := range found {
		out[i] = shapePos(shapes, s)
	}
	return out
}

// compareContains runs the three containment calls on both indexes.
func compareContains(hist, fresh *s2.ShapeIndex, hs, fs []s2.Shape, model int, p s2.Point) string {
	hq := s2.NewContainsPointQuery(hist, vertexModels[model])
	fq := s2.NewContainsPointQuery(fresh, vertexModels[model])
	// The first call after an Add is the one that has to notice the pending
	// update, for the benefit of all later calls: the three methods take turns
	// at being first (the turn is a function of the probe, so replay is exact).
	for j, rot := 0, int(math.Float64bits(p.X)%3); j < 3; j++ {
		switch (j + rot) % 3 {
		case 0:
			if g, w := hq.Contains(p), fq.Contains(p); g != w {
				return fmt.Sprintf("ContainsPointQuery(model %d).Contains(%v) = %v, fresh index says %v", model, p, g, w)
			}
		case 1:
			if g, w := positions(hq.ContainingShapes(p), hs), positions(fq.ContainingShapes(p), fs); !reflect.DeepEqual(g, w) {
				return fmt.Sprintf("ContainsPointQuery(model %d).ContainingShapes(%v) = shapes %v, fresh index says %v", model, p, g, w)
			}
		case 2:
			for i := len(hs) - 1; i >= 0; i-- {
				if g, w := hq.ShapeContains(hs[i], p), fq.ShapeContains(fs[i], p); g != w {
					return fmt.Sprintf("ContainsPointQuery(model %d).ShapeContains(shape %d, %v) = %v, fresh index says %v", model, i, p, g, w)
				}
			}
		}
	}
	return ""
}

func compareCrossings(hist, fresh *s2.ShapeIndex, hs, fs []s2.Shape, a, b s2.Point, all bool) string {
	hq := s2.NewCrossingEdgeQuery(hist)
	fq := s2.NewCrossingEdgeQuery(fresh)
	ct := crossType(all)
	perShape := func() string {
		for i := len(hs) - 1; i >= 0; i-- {
			ge := append([]int(nil), hq.Crossings(a, b, hs[i], ct)...)
			we := append([]int(nil), fq.Crossings(a, b, fs[i], ct)...)
			if len(ge) == 0 && len(we) == 0 {
				continue
			}
			if !reflect.DeepEqual(ge, we) {
				return fmt.Sprintf("Crossings(shape %d, all=%v) = %v, fresh index says %v", i, all, ge, we)
			}
		}
		return ""
	}
	// either method first (see compareContains)
	first := math.Float64bits(a.X)%2 == 1
	if first {
		if d := perShape(); d != "" {
			return d
		}
	}
	g := edgeMapByPos(hq.CrossingsEdgeMap(a, b, ct), hs)
	w := edgeMapByPos(fq.CrossingsEdgeMap(a, b, ct), fs)
	if !reflect.DeepEqual(g, w) {
		return fmt.Sprintf("CrossingsEdgeMap(all=%v) = %v, fresh index says %v", all, g, w)
	}
	if !first {
		return perShape()
	}
	return ""
}

func compareCells(hist, fresh *s2.ShapeIndex) string {
	g, w := s2.VerifIndexCells(hist), s2.VerifIndexCells(fresh)
	if len(g) != len(w) {
		return fmt.Sprintf("index has %d cells, fresh index has %d", len(g), len(w))
	}
	for i := range g {
		if !reflect.DeepEqual(g[i], w[i]) {
			return fmt.Sprintf("index cell %d is %+v, fresh index has %+v", i, g[i], w[i])
		}
	}
	return ""
}

func checkIndexHistory(c idxHistory) ev.Outcome {
	return guarded(c, func() ev.Outcome { return runIndexHistory(c) }, nil)
}

func runIndexHistory(c idxHistory) ev.Outcome {
	o := ev.Outcome{}
	hist := s2.NewShapeIndex()
	var histRegion *s2.ShapeIndexRegion
	var model []int
	var hs []s2.Shape
	built := false       // the index has been built since the last structural change and is non-empty
	everBuilt := false   // ... at any time since the last Reset (or ever)
	addAfterBuild := 0   // Adds onto a built non-empty index since the last Reset
	resetAfterBuild := 0 // Resets of an index that had been built
	ntQueries, queries := 0, 0
	worstRatio := 0.0
	kinds := map[string]bool{}

	fail := func(i int, msg string) ev.Outcome {
		o.Err = fmt.Sprintf("op %d (%s) after history %s: %s", i, c.Ops[i].Kind, historyString(c.Ops[:i]), msg)
		switch {
		case addAfterBuild > 0:
			o.Finding = "add-after-build"
		case resetAfterBuild > 0:
			o.Finding = "reset-state"
		}
		o.NonTrivial = true
		return o
	}

	for i, op := range c.Ops {
		switch op.Kind {
		case "add":
			if op.Shape < 0 || op.Shape >= len(c.Pool) {
				o.Skip = true
				return o
			}
			if built {
				addAfterBuild++
			}
			s := c.Pool[op.Shape].Build()
			id := hist.Add(s)
			if int(id) != len(model) {
				return fail(i, fmt.Sprintf("Add returned id %d, want %d (ids count from 0 after Reset)", id, len(model)))
			}
			model = append(model, op.Shape)
			hs = append(hs, s)
			built = false
			continue
		case "build":
			hist.Build()
			if len(model) > 0 {
				built, everBuilt = true, true
			}
			if !hist.IsFresh() {
				return fail(i, "IsFresh() is false right after Build()")
			}
			continue
		case "reset":
			if everBuilt {
				resetAfterBuild++
			}
			hist.Reset()
			model, hs = nil, nil
			built, everBuilt = false, false
			addAfterBuild = 0
			continue
		}
		// a query: build the fresh twin
		specs := make([]gen.ShapeSpec, len(model))
		for k, m := range model {
			specs[k] = c.Pool[m]
		}
		fs := buildShapes(specs)
		fresh := indexOfShapes(fs)
		queries++
		kinds[op.Kind] = true
		if addAfterBuild > 0 || resetAfterBuild > 0 {
			ntQueries++
		}
		var msg string
		switch op.Kind {
		case "contains":
			if op.Model < 0 || op.Model > 2 {
				o.Skip = true
				return o
			}
			msg = compareContains(hist, fresh, hs, fs, op.Model, op.P.Pt())
		case "crossings":
			msg = compareCrossings(hist, fresh, hs, fs, op.P.Pt(), op.B.Pt(), op.All)
		case "closest":
			if op.T.Kind == "index" || (op.M != "FindEdges" && op.M != "Distance") {
				o.Skip = true
				return o
			}
			hq := op.Cfg.query(hist, op.Cfg.options())
			fq := op.Cfg.query(fresh, op.Cfg.options())
			g := eqCall(hq, op.M, makeTarget(op.T, op.Cfg.Furthest, nil), 0)
			w := eqCall(fq, op.M, makeTarget(op.T, op.Cfg.Furthest, nil), 0)
			d, r := sameAnswer(op.M, op.Cfg, g, w)
			if r > worstRatio {
				worstRatio = r
			}
			if d != "" {
				msg = fmt.Sprintf("EdgeQuery%v.%s(%v): %s", op.Cfg, op.M, op.T, d)
				if optimizedDiffersFromBrute(op.Cfg, op.M, specs, func() any { return makeTarget(op.T, op.Cfg.Furthest, nil) }, 0, w) {
					out := fail(i, msg+" [the fresh optimized query also differs from the fresh brute-force query]")
					out.Finding = findingOptimizedVsBrute
					return out
				}
			}
		case "region":
			if histRegion == nil {
				histRegion = hist.Region()
			}
			fr := fresh.Region()
			if g, w := fmt.Sprint(histRegion.CellUnionBound()), fmt.Sprint(fr.CellUnionBound()); g != w {
				msg = fmt.Sprintf("long-lived ShapeIndexRegion.CellUnionBound() = %s, fresh index's region says %s", g, w)
			} else if g, w := histRegion.RectBound(), fr.RectBound(); g != w {
				msg = fmt.Sprintf("long-lived ShapeIndexRegion.RectBound() = %v, fresh %v", g, w)
			} else if g, w := histRegion.CapBound(), fr.CapBound(); g != w {
				msg = fmt.Sprintf("long-lived ShapeIndexRegion.CapBound() = %v, fresh %v", g, w)
			}
		case "cells":
			msg = compareCells(hist, fresh)
		case "locate":
			id := s2.CellID(op.Cell)
			if !id.IsValid() {
				o.Skip = true
				return o
			}
			locate := func(idx *s2.ShapeIndex) string {
				it := idx.Iterator()
				ok := it.LocatePoint(op.P.Pt())
				s := fmt.Sprintf("LocatePoint=%v", ok)
				if ok {
					s += " at " + it.CellID().String()
				}
				it2 := s2.NewShapeIndexIterator(idx, s2.IteratorBegin)
				rel := it2.LocateCellID(id)
				s += fmt.Sprintf(" LocateCellID(%v)=%v", id, rel)
				if rel != s2.Disjoint {
					s += " at " + it2.CellID().String()
				}
				e := idx.End()
				if e.Prev() {
					s += " last=" + e.CellID().String()
				}
				return s
			}
			if g, w := locate(hist), locate(fresh); g != w {
				msg = fmt.Sprintf("%s, fresh index says %s", g, w)
			}
		case "counts":
			if g, w := hist.Len(), fresh.Len(); g != w || g != len(model) {
				msg = fmt.Sprintf("Len() = %d, fresh index %d, model %d", g, w, len(model))
			} else if g, w := hist.NumEdges(), fresh.NumEdges(); g != w || g != totalEdges(specs) {
				msg = fmt.Sprintf("NumEdges() = %d, fresh index %d, model %d", g, w, totalEdges(specs))
			} else {
				for k := range hs {
					if hist.Shape(int32(k)) != hs[k] {
						msg = fmt.Sprintf("Shape(%d) is not the %d-th shape added since the last Reset", k, k)
					}
				}
			}
		default:
			o.Skip = true
			return o
		}
		if msg != "" {
			return fail(i, msg)
		}
		// most queries apply pending updates (brute-force edge queries and counts do not)
		if hist.IsFresh() && len(model) > 0 {
			built, everBuilt = true, true
		}
	}
	o.NonTrivial = ntQueries > 0
	ks := make([]string, 0, len(kinds))
	for k := range kinds {
		ks = append(ks, k)
	}
	sort.Strings(ks)
	o.Class = fmt.Sprintf("queriesAfterRebuild=%s/edges=%s", bucket(ntQueries), bucket(totalEdges(c.Pool)))
	o.Ratios = map[string]float64{"single-result |Δdistance| / distTol": worstRatio}
	o.Counts = map[string]int{"queries": queries, "queries_after_add_after_build_or_reset": ntQueries}
	for _, k := range ks {
		o.Counts["histories_with_"+k] = 1
	}
	return o
}

func historyString(ops []idxOp) string {
	var s []string
	for _, op := range ops {
		switch op.Kind {
		case "add":
			s = append(s, fmt.Sprintf("Add(%d)", op.Shape))
		case "build":
			s = append(s, "Build")
		case "reset":
			s = append(s, "Reset")
		default:
			s = append(s, "q:"+op.Kind)
		}
	}
	if len(s) > 40 {
		s = append([]string{"…"}, s[len(s)-40:]...)
	}
	return fmt.Sprint(s)
}

var _ = s1.ChordAngle(0)
