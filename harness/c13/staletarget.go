package c13

import (
	"fmt"

	"github.com/golang/geo/s1"
	"github.com/golang/geo/s2"
	"pgregory.net/rapid"

	"verifharness/internal/ev"
	"verifharness/internal/gen"
)

// staleTarget: ONE ShapeIndex target object (Min/MaxDistanceToShapeIndexTarget)
// whose index changes between two uses: more shapes are added to it, or it is
// Reset and refilled (with the same or another number of shapes). The geometry
// "currently held" by the target is that of its index now.
type staleTarget struct {
	Queried   []gen.ShapeSpec
	TBefore   []gen.ShapeSpec
	TAfter    []gen.ShapeSpec
	Reset     bool // target index Reset before TAfter is added
	UseBefore bool // the target answers one call before its index changes
	Build     bool // explicit Build of the target index after the change
	OldQuery  bool // the query that used the target before the change is also the one asked afterwards
	Cfg       qcfg
	Limits    []float64 // thresholds of the IsDistanceLess / IsDistanceGreater calls
}

func genStaleTarget(t *rapid.T) staleTarget {
	c := staleTarget{Queried: drawPool(t, "queried", 6, rapid.SampledFrom([]int{20, 60, 200, 200}).Draw(t, "maxEdges"))}
	c.TBefore = gen.ShapeSet(t, "tbefore", 3, 60)
	c.TAfter = gen.ShapeSet(t, "tafter", 3, 60)
	if rapid.IntRange(0, 2).Draw(t, "samecount") != 0 {
		// same number of shapes before and after (ids and counts repeat)
		for len(c.TAfter) > len(c.TBefore) {
			c.TAfter = c.TAfter[:len(c.TAfter)-1]
		}
		for len(c.TBefore) > len(c.TAfter) {
			c.TBefore = c.TBefore[:len(c.TBefore)-1]
		}
	}
	c.Reset = rapid.Bool().Draw(t, "reset")
	c.UseBefore = rapid.IntRange(0, 3).Draw(t, "useBefore") != 0
	c.Build = rapid.Bool().Draw(t, "build")
	c.OldQuery = rapid.Bool().Draw(t, "oldQuery")
	c.Cfg = qcfg{Furthest: rapid.IntRange(0, 3).Draw(t, "far") == 0, Limit: -1, Interiors: rapid.Bool().Draw(t, "int"),
		K: rapid.SampledFrom([]int{0, 1}).Draw(t, "K"), Brute: rapid.IntRange(0, 5).Draw(t, "brute") == 0}
	qv, av := allVerts(c.Queried), allVerts(c.TAfter)
	ts := tspec{Kind: "point", P: av[rapid.IntRange(0, len(av)-1).Draw(t, "lv")]}
	if rapid.IntRange(0, 2).Draw(t, "limk") != 0 {
		c.Cfg.Limit = drawLimit(t, "cfglimit", ts, qv)
	}
	for i := 0; i < 3; i++ {
		c.Limits = append(c.Limits, drawLimit(t, fmt.Sprintf("lim%d", i), ts, qv))
	}
	return c
}

func checkStaleTarget(c staleTarget) ev.Outcome {
	return guarded(c, func() ev.Outcome { return runStaleTarget(c) }, nil)
}

func runStaleTarget(c staleTarget) ev.Outcome {
	o := ev.Outcome{}
	if len(c.Queried) == 0 || len(c.TBefore) == 0 || len(c.TAfter) == 0 || len(c.Limits) == 0 || (c.Cfg.K != 0 && c.Cfg.K != 1) || c.Cfg.MaxErr != 0 {
		o.Skip = true
		return o
	}
	mk := func(ti *s2.ShapeIndex) any {
		if c.Cfg.Furthest {
			return s2.NewMaxDistanceToShapeIndexTarget(ti)
		}
		return s2.NewMinDistanceToShapeIndexTarget(ti)
	}
	idx := indexOfShapes(buildShapes(c.Queried))
	tidx := indexOfShapes(buildShapes(c.TBefore))
	target := mk(tidx)
	q := c.Cfg.query(idx, c.Cfg.options())
	if c.UseBefore {
		eqCall(q, "FindEdges", target, 0)
		eqCall(q, "IsDistanceLess", target, s1.ChordAngle(c.Limits[0]))
	}
	final := append([]gen.ShapeSpec{}, c.TBefore...)
	if c.Reset {
		tidx.Reset()
		final = nil
	}
	for _, s := range buildShapes(c.TAfter) {
		tidx.Add(s)
	}
	final = append(final, c.TAfter...)
	if c.Build {
		tidx.Build()
	}
	if !c.OldQuery {
		q = c.Cfg.query(idx, c.Cfg.options())
	}
	fresh := func() any { return mk(indexOfShapes(buildShapes(final))) }
	changed := false
	type call struct {
		m string
		l float64
	}
	calls := []call{{"FindEdges", 0}, {"Distance", 0}}
	for i, l := range c.Limits {
		calls = append(calls, call{[]string{"IsDistanceLess", "IsDistanceGreater"}[i%2], l})
	}
	for _, cl := range calls {
		got := eqCall(q, cl.m, target, s1.ChordAngle(cl.l))
		fq := c.Cfg.query(indexOfShapes(buildShapes(c.Queried)), c.Cfg.options())
		want := eqCall(fq, cl.m, fresh(), s1.ChordAngle(cl.l))
		if d, _ := sameAnswer(cl.m, c.Cfg, got, want); d != "" {
			if optimizedDiffersFromBrute(c.Cfg, cl.m, c.Queried, fresh, s1.ChordAngle(cl.l), want) {
				continue // C08's business, not history
			}
			o.Err = fmt.Sprintf("%s(limit %g) of a %v query given a ShapeIndex target object created before its index changed (reset=%v usedBefore=%v build=%v sameQuery=%v; %d shapes before, %d after): %s", cl.m, cl.l, c.Cfg, c.Reset, c.UseBefore, c.Build, c.OldQuery, len(c.TBefore), len(c.TAfter), d)
			o.Finding = "stale-index-target"
			o.NonTrivial = true
			return o
		}
		if cl.m == "Distance" {
			old := eqCall(c.Cfg.query(indexOfShapes(buildShapes(c.Queried)), c.Cfg.options()), cl.m, mk(indexOfShapes(buildShapes(c.TBefore))), 0)
			changed = changed || old.Dist != want.Dist
		}
	}
	o.NonTrivial = changed && c.UseBefore
	path := "optimized"
	if c.Cfg.Brute || totalEdges(c.Queried) <= 25 {
		path = "brute"
	}
	o.Class = fmt.Sprintf("furthest=%v/%s/K=%s/reset=%v/usedBefore=%v/sameCount=%v/limit=%v", c.Cfg.Furthest, path, kClass(c.Cfg.K), c.Reset, c.UseBefore, len(c.TBefore) == len(c.TAfter), c.Cfg.Limit >= 0)
	return o
}

func init() {
	ev.Define("stale_index_target", ev.Options{
		Rule:  "ONE Min/MaxDistanceToShapeIndexTarget object over a target index of 1..3 shapes; it answers a FindEdges and a threshold call (3/4 of cases), then its index changes - more shapes are added, or it is Reset and refilled (2/3 of cases with the same number of shapes, drawn at independent places) - optionally followed by an explicit Build; the same target object is then given to the same or a new closest/furthest EdgeQuery (MaxResults unset or 1, DistanceLimit set in 2/3 of cases around real distances, brute-force and optimized sizes) for FindEdges, Distance, IsDistanceLess/Greater. Oracle: a new target over a fresh index holding the final target geometry, new query, fresh queried index (deep equality; single-result calls by distance). Non-trivial: the target was used before the change and the change moves the true distance.",
		Quick: 2500, Thorough: 60000, Journal: true}, genStaleTarget, checkStaleTarget)
}
