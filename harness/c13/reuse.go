package c13

import (
	"fmt"
	"reflect"

	"github.com/golang/geo/s1"
	"github.com/golang/geo/s2"
	"pgregory.net/rapid"

	"verifharness/internal/ev"
	"verifharness/internal/gen"
)

// ---------------------------------------------------------------- EdgeQuery reuse

type eqOp struct {
	// M: FindEdges | Distance | IsDistanceLess | IsDistanceGreater |
	// IsConservativeDistanceLessOrEqual | IsConservativeDistanceGreaterOrEqual |
	// Reset (EdgeQuery.Reset) | Requery (new query from the caller's same options object)
	M     string
	T     int     // position in Targets
	Limit float64 // threshold for the Is* calls (chord angle)
}

type eqReuse struct {
	Shapes       []gen.ShapeSpec
	TargetShapes []gen.ShapeSpec // geometry of the ShapeIndex target
	Cfg          qcfg
	Targets      []tspec
	FreshTargets bool // a new target object per call (false: one object per entry of Targets, shared by all calls)
	Ops          []eqOp
}

var thresholdMethods = []string{"IsDistanceLess", "IsDistanceGreater", "IsConservativeDistanceLessOrEqual", "IsConservativeDistanceGreaterOrEqual"}

func isThreshold(m string) bool {
	for _, t := range thresholdMethods {
		if t == m {
			return true
		}
	}
	return false
}

func genEQReuse(t *rapid.T) eqReuse {
	maxOps := 25
	if ev.Thorough() {
		maxOps = 60
	}
	maxEdges := rapid.SampledFrom([]int{20, 60, 200, 200}).Draw(t, "maxEdges")
	c := eqReuse{Shapes: drawPool(t, "shapes", 6, maxEdges)}
	verts := allVerts(c.Shapes)
	c.Cfg = qcfg{Furthest: rapid.IntRange(0, 3).Draw(t, "far") == 0, Limit: -1,
		Interiors: rapid.Bool().Draw(t, "int"), Brute: rapid.IntRange(0, 5).Draw(t, "brute") == 0}
	c.Cfg.K = rapid.SampledFrom([]int{0, 0, 0, 1, 2, 5, 100}).Draw(t, "K")
	if rapid.IntRange(0, 3).Draw(t, "errk") == 0 {
		c.Cfg.MaxErr = float64(s1.ChordAngleFromAngle(s1.Angle(rapid.Float64Range(1e-6, 0.3).Draw(t, "err"))))
	}
	// ShapeIndex targets only where their answer is a function of the inputs:
	// MaxResults unset or 1 (the target walks a Go map when it looks for
	// containing shapes and stops at MaxResults) and MaxError unset (the inner
	// single-result query may return any edge within MaxError).
	// In a third of the other cases index targets are generated anyway and compared
	// loosely (see runEQReuse): MaxError > 0 with MaxResults > 1 and an index target
	// is the only combination that exercises the query's tested-edge set.
	allowIndex := ((c.Cfg.K == 0 || c.Cfg.K == 1) && c.Cfg.MaxErr == 0) || rapid.IntRange(0, 2).Draw(t, "looseIndex") == 0
	nt := rapid.IntRange(1, 4).Draw(t, "ntargets")
	hasIndex := false
	for i := 0; i < nt; i++ {
		ts := drawTarget(t, fmt.Sprintf("t%d", i), verts, allowIndex)
		hasIndex = hasIndex || ts.Kind == "index"
		c.Targets = append(c.Targets, ts)
	}
	if hasIndex {
		// the target geometry: 1..3 shapes near the indexed geometry (same centre family)
		c.TargetShapes = gen.ShapeSet(t, "tshapes", 3, 60)
		if rapid.Bool().Draw(t, "tnear") {
			// move it next to the indexed geometry by re-using some indexed shapes
			k := rapid.IntRange(0, len(c.Shapes)-1).Draw(t, "tshare")
			c.TargetShapes = append(c.TargetShapes, c.Shapes[k])
		}
	}
	if rapid.IntRange(0, 2).Draw(t, "limk") == 0 {
		c.Cfg.Limit = drawLimit(t, "cfglimit", c.Targets[0], verts)
	}
	c.FreshTargets = rapid.IntRange(0, 2).Draw(t, "freshTargets") != 0
	n := rapid.IntRange(2, maxOps).Draw(t, "nops")
	for i := 0; i < n; i++ {
		l := fmt.Sprintf("op%d", i)
		op := eqOp{T: rapid.IntRange(0, nt-1).Draw(t, l+".t")}
		switch k := rapid.IntRange(0, 19).Draw(t, l+".k"); {
		case k <= 6:
			op.M = "FindEdges"
		case k <= 9:
			op.M = "Distance"
		case k <= 16:
			op.M = rapid.SampledFrom(thresholdMethods).Draw(t, l+".m")
			op.Limit = drawLimit(t, l+".limit", c.Targets[op.T], verts)
		case k == 17:
			op.M = "Reset"
		default:
			op.M = "Requery"
		}
		c.Ops = append(c.Ops, op)
	}
	c.Ops = append(c.Ops, eqOp{M: "FindEdges", T: rapid.IntRange(0, nt-1).Draw(t, "last.t")})
	return c
}

func checkEQReuse(c eqReuse) ev.Outcome {
	return guarded(c, func() ev.Outcome { return runEQReuse(c) }, nil)
}

func runEQReuse(c eqReuse) ev.Outcome {
	o := ev.Outcome{}
	if len(c.Shapes) == 0 || len(c.Targets) == 0 {
		o.Skip = true
		return o
	}
	for _, ts := range c.Targets {
		if ts.Kind == "index" && len(c.TargetShapes) == 0 {
			o.Skip = true
			return o
		}
		if ts.Kind == "cell" && !s2.CellID(ts.Cell).IsValid() {
			o.Skip = true
			return o
		}
	}
	idx := indexOfShapes(buildShapes(c.Shapes))
	callerOpts := c.Cfg.options() // the caller's options object, kept and reused by Requery
	q := c.Cfg.query(idx, callerOpts)
	shared := make([]any, len(c.Targets))
	afterThreshold, afterSingle := false, false
	ntCalls, calls := 0, 0
	worstRatio := 0.0
	usedShared := map[int]bool{}
	var held []eqAnswer // answers of earlier FindEdges calls, with the slices as returned
	var heldAt []int
	for i, op := range c.Ops {
		switch op.M {
		case "Reset":
			q.Reset()
			continue
		case "Requery":
			q = c.Cfg.query(idx, callerOpts)
			continue
		}
		if op.T < 0 || op.T >= len(c.Targets) {
			o.Skip = true
			return o
		}
		ts := c.Targets[op.T]
		var target any
		sharedIndexTarget := false
		if c.FreshTargets {
			target = makeTarget(ts, c.Cfg.Furthest, c.TargetShapes)
		} else {
			if shared[op.T] == nil {
				shared[op.T] = makeTarget(ts, c.Cfg.Furthest, c.TargetShapes)
			} else if ts.Kind == "index" {
				sharedIndexTarget = true
			}
			usedShared[op.T] = true
			target = shared[op.T]
		}
		calls++
		if (op.M == "FindEdges" || op.M == "Distance") && (afterThreshold || afterSingle) {
			ntCalls++
		}
		got := eqCall(q, op.M, target, s1.ChordAngle(op.Limit))
		if op.M == "FindEdges" {
			held = append(held, got)
			heldAt = append(heldAt, i)
		}
		// an answer is the caller's: no later call on the same query may rewrite
		// a result slice returned earlier
		for k, h := range held {
			if h.rewritten() {
				o.Err = fmt.Sprintf("the results returned by call %d (FindEdges, %d results) were rewritten in place by call %d %s on the same %v query", heldAt[k], len(h.Res), i, op.M, c.Cfg)
				o.Finding = "returned-results-rewritten"
				o.NonTrivial = true
				return o
			}
		}
		// the shortest sequence: fresh index, fresh options, fresh query, fresh target
		fidx := indexOfShapes(buildShapes(c.Shapes))
		fq := c.Cfg.query(fidx, c.Cfg.options())
		want := eqCall(fq, op.M, makeTarget(ts, c.Cfg.Furthest, c.TargetShapes), s1.ChordAngle(op.Limit))
		var d string
		var r float64
		if ts.Kind == "index" && !((c.Cfg.K == 0 || c.Cfg.K == 1) && c.Cfg.MaxErr == 0) {
			// not a function of the inputs (the target walks a Go map; any edge within
			// MaxError may be substituted): only the order-free facts are compared -
			// the number of results, and the threshold answers
			switch {
			case op.M == "FindEdges" && len(got.Res) != len(want.Res):
				d = fmt.Sprintf("%d results, fresh query gives %d", len(got.Res), len(want.Res))
			case isThreshold(op.M) && got.Bool != want.Bool:
				d = fmt.Sprintf("%v, fresh query gives %v", got.Bool, want.Bool)
			}
		} else {
			d, r = sameAnswer(op.M, c.Cfg, got, want)
		}
		if r > worstRatio {
			worstRatio = r
		}
		if d != "" {
			var h []string
			for _, p := range c.Ops[:i] {
				h = append(h, p.M)
			}
			o.Err = fmt.Sprintf("call %d %s(%v, limit %g) on a reused %v query after %v: %s", i, op.M, ts, op.Limit, c.Cfg, h, d)
			o.NonTrivial = true
			switch {
			case optimizedDiffersFromBrute(c.Cfg, op.M, c.Shapes, func() any { return makeTarget(ts, c.Cfg.Furthest, c.TargetShapes) }, s1.ChordAngle(op.Limit), want):
				o.Finding = findingOptimizedVsBrute
				o.Err += " [the fresh optimized query also differs from the fresh brute-force query]"
			case sharedIndexTarget:
				// Decide whether the shared target object is what carries the
				// history: give the SAME reused query a NEW target object. (A new
				// query given the shared target is not a reliable test: a target
				// left with MaxError = pi answers in Go map order.)
				again := eqCall(q, op.M, makeTarget(ts, c.Cfg.Furthest, c.TargetShapes), s1.ChordAngle(op.Limit))
				if d2, _ := sameAnswer(op.M, c.Cfg, again, want); d2 == "" {
					o.Finding = "target-reuse-maxerror"
					o.Err += " [the same reused query given a NEW ShapeIndex target object agrees with the fresh query: the shared target object carries state from earlier calls]"
				} else {
					o.Finding = "option-mutation"
				}
			default:
				o.Finding = "option-mutation"
			}
			return o
		}
		if isThreshold(op.M) {
			afterThreshold = true
		}
		if op.M == "Distance" {
			afterSingle = true
		}
	}
	o.NonTrivial = ntCalls > 0
	kinds := map[string]bool{}
	for _, ts := range c.Targets {
		kinds[ts.Kind] = true
	}
	path := "optimized"
	if c.Cfg.Brute || totalEdges(c.Shapes) <= 25 {
		path = "brute"
	} else if totalEdges(c.Shapes) <= 30 {
		path = "either"
	}
	o.Class = fmt.Sprintf("furthest=%v/%s/K=%s/indexTarget=%v/freshTargets=%v", c.Cfg.Furthest, path, kClass(c.Cfg.K), kinds["index"], c.FreshTargets)
	o.Ratios = map[string]float64{"single-result |Δdistance| / distTol": worstRatio}
	o.Counts = map[string]int{"calls": calls, "find_or_distance_after_threshold_or_single": ntCalls}
	return o
}

func kClass(k int) string {
	switch {
	case k == 0:
		return "all"
	case k == 1:
		return "1"
	}
	return "few"
}

// ---------------------------------------------------------------- ContainsPointQuery / CrossingEdgeQuery reuse

type pqOp struct {
	// M: Contains | ShapeContains | ContainingShapes | Crossings | CrossingsEdgeMap
	M     string
	Model int
	P     gen.P
	B     gen.P
	Shape int
	All   bool
}

type pqReuse struct {
	Shapes []gen.ShapeSpec
	Ops    []pqOp
}

func genPQReuse(t *rapid.T) pqReuse {
	maxOps := 25
	if ev.Thorough() {
		maxOps = 60
	}
	c := pqReuse{Shapes: drawPool(t, "shapes", 6, rapid.SampledFrom([]int{30, 100, 300}).Draw(t, "maxEdges"))}
	verts := allVerts(c.Shapes)
	n := rapid.IntRange(2, maxOps).Draw(t, "nops")
	for i := 0; i < n; i++ {
		l := fmt.Sprintf("op%d", i)
		ps := gen.ProbePoints(t, l+".p", verts, 2)
		a, b := ps[0].Pt(), ps[1].Pt()
		if a.Dot(b.Vector) < -0.9 {
			b = gen.Fix(s2.Interpolate(0.3, a, b), a)
		}
		op := pqOp{M: rapid.SampledFrom([]string{"Contains", "ShapeContains", "ContainingShapes", "Crossings", "CrossingsEdgeMap"}).Draw(t, l+".m"),
			Model: rapid.IntRange(0, 2).Draw(t, l+".model"), P: gen.FromPt(a), B: gen.FromPt(b),
			Shape: rapid.IntRange(0, len(c.Shapes)-1).Draw(t, l+".shape"), All: rapid.Bool().Draw(t, l+".all")}
		c.Ops = append(c.Ops, op)
	}
	return c
}

func checkPQReuse(c pqReuse) ev.Outcome {
	return guarded(c, func() ev.Outcome { return runPQReuse(c) }, nil)
}

func runPQReuse(c pqReuse) ev.Outcome {
	o := ev.Outcome{}
	if len(c.Shapes) == 0 {
		o.Skip = true
		return o
	}
	hs := buildShapes(c.Shapes)
	idx := indexOfShapes(hs)
	var cpq [3]*s2.ContainsPointQuery
	for m := range cpq {
		cpq[m] = s2.NewContainsPointQuery(idx, vertexModels[m])
	}
	ceq := s2.NewCrossingEdgeQuery(idx)
	ncells := len(s2.VerifIndexCells(idx))
	for i, op := range c.Ops {
		if op.Model < 0 || op.Model > 2 || op.Shape < 0 || op.Shape >= len(hs) {
			o.Skip = true
			return o
		}
		fs := buildShapes(c.Shapes)
		fidx := indexOfShapes(fs)
		a, b := op.P.Pt(), op.B.Pt()
		var got, want any
		switch op.M {
		case "Contains":
			got, want = cpq[op.Model].Contains(a), s2.NewContainsPointQuery(fidx, vertexModels[op.Model]).Contains(a)
		case "ShapeContains":
			got, want = cpq[op.Model].ShapeContains(hs[op.Shape], a), s2.NewContainsPointQuery(fidx, vertexModels[op.Model]).ShapeContains(fs[op.Shape], a)
		case "ContainingShapes":
			got, want = positions(cpq[op.Model].ContainingShapes(a), hs), positions(s2.NewContainsPointQuery(fidx, vertexModels[op.Model]).ContainingShapes(a), fs)
		case "Crossings":
			got = append([]int{}, ceq.Crossings(a, b, hs[op.Shape], crossType(op.All))...)
			want = append([]int{}, s2.NewCrossingEdgeQuery(fidx).Crossings(a, b, fs[op.Shape], crossType(op.All))...)
		case "CrossingsEdgeMap":
			got = edgeMapByPos(ceq.CrossingsEdgeMap(a, b, crossType(op.All)), hs)
			want = edgeMapByPos(s2.NewCrossingEdgeQuery(fidx).CrossingsEdgeMap(a, b, crossType(op.All)), fs)
		default:
			o.Skip = true
			return o
		}
		if !reflect.DeepEqual(got, want) {
			var h []string
			for _, p := range c.Ops[:i] {
				h = append(h, p.M)
			}
			o.Err = fmt.Sprintf("call %d %s(model %d, shape %d, all=%v, %v, %v) on a reused query object after %v = %v, a new query object says %v", i, op.M, op.Model, op.Shape, op.All, a, b, h, got, want)
			o.Finding = "query-object-state"
			o.NonTrivial = true
			return o
		}
	}
	o.NonTrivial = len(c.Ops) >= 2 && ncells >= 2
	o.Class = fmt.Sprintf("cells=%s/shapes=%d", bucket(ncells), len(hs))
	return o
}
