package c13

import (
	"bytes"
	"fmt"
	"math"
	"sort"
	"strings"

	"github.com/golang/geo/s2"
	"pgregory.net/rapid"

	"verifharness/internal/ev"
	"verifharness/internal/gen"
)

// lpOp is one operation of a loop/polygon history.
type lpOp struct {
	// Kind: invert | normalize | build | contains | cell | relate | measure | encode | shape
	Kind  string
	P     gen.P
	Cell  uint64
	Other int
}

type lpHistory struct {
	// Family: loop | polygon | emptyloop | fullloop | emptypoly | fullpoly
	Family string
	L      gen.LoopCase
	R      gen.RingsPolygon
	More   []gen.RingsPolygon // polygon: further ring families about other cube-face centres (several top-level shells, > 12 loops)
	Others []gen.LoopCase
	Ops    []lpOp
}

func revP(v []gen.P) []gen.P {
	n := len(v)
	out := make([]gen.P, n)
	for i := range v {
		out[i] = v[n-1-i]
	}
	return out
}

func (c lpHistory) isPolygon() bool {
	return c.Family == "polygon" || c.Family == "emptypoly" || c.Family == "fullpoly"
}

func (c lpHistory) special() bool { return c.Family != "loop" && c.Family != "polygon" }

// boundaryVerts returns the vertices of the object (for probes).
func (c lpHistory) boundaryVerts() []gen.P {
	switch c.Family {
	case "loop":
		return c.L.V
	case "polygon":
		var v []gen.P
		for _, r := range c.R.Rings {
			v = append(v, r...)
		}
		for _, m := range c.More {
			for _, r := range m.Rings {
				v = append(v, r...)
			}
		}
		return v
	}
	return []gen.P{{0, 0, 1}, {0, 0, -1}, {1, 0, 0}}
}

// freshLoop builds the model's loop: original vertex order, reversed iff parity is odd
// (exactly the order Invert produces: ABCD -> DCBA).
func (c lpHistory) freshLoop(odd bool) *s2.Loop {
	switch c.Family {
	case "emptyloop":
		if odd {
			return s2.FullLoop()
		}
		return s2.EmptyLoop()
	case "fullloop":
		if odd {
			return s2.EmptyLoop()
		}
		return s2.FullLoop()
	}
	v := c.L.V
	if odd {
		v = revP(v)
	}
	return s2.LoopFromPoints(gen.Pts(v))
}

func (c lpHistory) freshPolygon(odd bool) *s2.Polygon {
	switch c.Family {
	case "emptypoly":
		if odd {
			return s2.FullPolygon()
		}
		return s2.PolygonFromLoops([]*s2.Loop{s2.EmptyLoop()})
	case "fullpoly":
		if odd {
			return s2.PolygonFromLoops([]*s2.Loop{s2.EmptyLoop()})
		}
		return s2.FullPolygon()
	}
	var ls []*s2.Loop
	for k, r := range c.R.Rings {
		v := r
		if k == 0 && odd {
			v = revP(v)
		}
		ls = append(ls, s2.LoopFromPoints(gen.Pts(v)))
	}
	// the complement of a polygon with several shells: one top-level shell
	// reversed (above), every other loop unchanged; the nesting is recomputed
	for _, m := range c.More {
		for _, r := range m.Rings {
			ls = append(ls, s2.LoopFromPoints(gen.Pts(r)))
		}
	}
	return s2.PolygonFromLoops(ls)
}

func genLoopHistory(t *rapid.T) lpHistory {
	maxOps := 25
	maxN := 300
	if ev.Thorough() {
		maxOps = 60
		if rapid.IntRange(0, 9).Draw(t, "bign") == 0 {
			maxN = 2000
		}
	}
	var c lpHistory
	switch k := rapid.IntRange(0, 19).Draw(t, "family"); {
	case k <= 10:
		c.Family = "loop"
		c.L = gen.Loop(t, "l", maxN)
	case k <= 16:
		c.Family = "polygon"
		c.R = gen.DrawRings(t, "rp", 5, minInt(maxN, 120))
		if rapid.IntRange(0, 2).Draw(t, "multi") == 0 {
			// several disjoint ring families about distinct cube-face centres (radius ≤ 25°)
			faces := rapid.Permutation([]int{0, 1, 2, 3, 4, 5}).Draw(t, "faces")
			nf := rapid.IntRange(2, 5).Draw(t, "families")
			per := 12
			if rapid.Bool().Draw(t, "smallrings") {
				per = 8
			}
			for f := 0; f < nf; f++ {
				centre := s2.Point{Vector: gen.FaceUVToXYZ(faces[f], 0, 0)}
				rp := gen.DrawRingsAt(t, fmt.Sprintf("mf%d", f), centre, rapid.IntRange(1, 4).Draw(t, "mrings"), per, 25*math.Pi/180)
				if f == 0 {
					c.R = rp
				} else {
					c.More = append(c.More, rp)
				}
			}
		}
	case k == 17:
		c.Family = rapid.SampledFrom([]string{"emptyloop", "fullloop"}).Draw(t, "sp")
	default:
		c.Family = rapid.SampledFrom([]string{"emptypoly", "fullpoly"}).Draw(t, "sp")
	}
	verts := c.boundaryVerts()
	// other loops for relation tests: about the same centre (nested / crossing / containing) or anywhere
	centre := verts[0].Pt()
	if c.Family == "loop" {
		centre = c.L.Inside.Pt()
	} else if c.Family == "polygon" {
		centre = c.R.Center.Pt()
	}
	no := rapid.IntRange(1, 3).Draw(t, "nothers")
	for i := 0; i < no; i++ {
		l := fmt.Sprintf("o%d", i)
		var oc gen.LoopCase
		switch rapid.IntRange(0, 3).Draw(t, l+".k") {
		case 0:
			oc = gen.Loop(t, l, 80)
		case 1:
			oc = gen.StarLoopAt(t, l, gen.Fix(s2.Interpolate(rapid.Float64Range(0, 1).Draw(t, l+".f"), centre, verts[rapid.IntRange(0, len(verts)-1).Draw(t, l+".v")].Pt()), centre), 80, 0)
		default:
			oc = gen.StarLoopAt(t, l, centre, 80, 0)
		}
		if rapid.IntRange(0, 4).Draw(t, l+".inv") == 0 {
			oc = oc.Reversed()
		}
		c.Others = append(c.Others, oc)
	}
	// candidate cells: the object's own index cells (exact / parent / child) and cells at its vertices
	var indexCells []s2.CellID
	switch c.Family {
	case "loop":
		for _, ic := range s2.VerifIndexCells(s2.VerifLoopIndex(c.freshLoop(false))) {
			indexCells = append(indexCells, ic.ID)
		}
	case "polygon":
		for _, ic := range s2.VerifIndexCells(s2.VerifPolygonIndex(c.freshPolygon(false))) {
			indexCells = append(indexCells, ic.ID)
		}
	}
	drawCell := func(l string) uint64 {
		if len(indexCells) > 0 && rapid.Bool().Draw(t, l+".fromindex") {
			id := indexCells[rapid.IntRange(0, len(indexCells)-1).Draw(t, l+".ic")]
			switch rapid.IntRange(0, 3).Draw(t, l+".rel") {
			case 0:
				if id.Level() > 0 {
					id = id.Parent(rapid.IntRange(0, id.Level()-1).Draw(t, l+".pl"))
				}
			case 1:
				if id.Level() < 30 {
					id = id.Children()[rapid.IntRange(0, 3).Draw(t, l+".ch")]
				}
			}
			return uint64(id)
		}
		p := gen.ProbePoints(t, l+".cp", verts, 1)[0].Pt()
		return uint64(s2.CellFromPoint(p).ID().Parent(rapid.IntRange(0, 30).Draw(t, l+".lvl")))
	}
	n := rapid.IntRange(3, maxOps).Draw(t, "nops")
	for i := 0; i < n; i++ {
		l := fmt.Sprintf("op%d", i)
		var op lpOp
		switch k := rapid.IntRange(0, 19).Draw(t, l+".k"); {
		case k <= 3:
			op = lpOp{Kind: "invert"}
		case k == 4:
			op = lpOp{Kind: "build"}
		case k == 5:
			op = lpOp{Kind: "normalize"}
		case k <= 9:
			op = lpOp{Kind: "contains", P: gen.ProbePoints(t, l+".p", verts, 1)[0]}
		case k <= 12:
			op = lpOp{Kind: "cell", Cell: drawCell(l)}
		case k <= 14:
			op = lpOp{Kind: "relate", Other: rapid.IntRange(0, no-1).Draw(t, l+".other")}
		case k <= 16:
			op = lpOp{Kind: "measure"}
		case k == 17:
			op = lpOp{Kind: "encode"}
		default:
			op = lpOp{Kind: "shape", P: gen.ProbePoints(t, l+".p", verts, 1)[0]}
		}
		c.Ops = append(c.Ops, op)
	}
	// end with one point and one structural query
	c.Ops = append(c.Ops, lpOp{Kind: "contains", P: gen.ProbePoints(t, "lastp", verts, 1)[0]}, lpOp{Kind: "measure"})
	return c
}

func minInt(a, b int) int {
	if a < b {
		return a
	}
	return b
}

func measureLoop(l *s2.Loop) string {
	var b strings.Builder
	fmt.Fprintf(&b, "n=%d edges=%d chains=%d empty=%v full=%v rect=%v cap=%v area=%v turn=%v centroid=%v origin=%v normalized=%v ref=%v hole=%v sign=%d",
		l.NumVertices(), l.NumEdges(), l.NumChains(), l.IsEmpty(), l.IsFull(), l.RectBound(), l.CapBound(), l.Area(), l.TurningAngle(), l.Centroid(),
		l.ContainsOrigin(), l.IsNormalized(), l.ReferencePoint(), l.IsHole(), l.Sign())
	fmt.Fprintf(&b, " verts=%v", l.Vertices())
	return b.String()
}

func measurePolygon(p *s2.Polygon) string {
	var b strings.Builder
	fmt.Fprintf(&b, "loops=%d edges=%d chains=%d empty=%v full=%v rect=%v cap=%v area=%v centroid=%v ref=%v",
		p.NumLoops(), p.NumEdges(), p.NumChains(), p.IsEmpty(), p.IsFull(), p.RectBound(), p.CapBound(), p.Area(), p.Centroid(), p.ReferencePoint())
	for k := 0; k < p.NumLoops(); k++ {
		par, ok := p.Parent(k)
		fmt.Fprintf(&b, " [loop %d hole=%v parent=%d,%v last=%d chain=%v origin=%v verts=%v]", k, p.Loop(k).IsHole(), par, ok, p.LastDescendant(k), p.Chain(k), p.Loop(k).ContainsOrigin(), p.Loop(k).Vertices())
	}
	return b.String()
}

// semanticPolygon: facts about a polygon that do not depend on the order of its
// loops: counts, the sorted multiset of its Shape edges (interior on the left),
// the chain bookkeeping (every edge id maps to a chain position and back, chains
// tile the edge ids), and containment of p through an outer index.
func semanticPolygon(p *s2.Polygon, q s2.Point) string {
	var b strings.Builder
	n := p.NumEdges()
	fmt.Fprintf(&b, "loops=%d edges=%d chains=%d empty=%v full=%v dim=%d", p.NumLoops(), n, p.NumChains(), p.IsEmpty(), p.IsFull(), p.Dimension())
	es := make([]string, 0, n)
	for e := 0; e < n; e++ {
		ed := p.Edge(e)
		es = append(es, fmt.Sprintf("%v>%v", ed.V0.Vector, ed.V1.Vector))
		cp := p.ChainPosition(e)
		if cp.ChainID < 0 || cp.ChainID >= p.NumChains() || p.ChainEdge(cp.ChainID, cp.Offset) != ed || p.Chain(cp.ChainID).Start+cp.Offset != e {
			fmt.Fprintf(&b, " [edge %d: ChainPosition %v does not lead back to it]", e, cp)
		}
	}
	sort.Strings(es)
	next := 0
	for k := 0; k < p.NumChains(); k++ {
		ch := p.Chain(k)
		if ch.Start != next {
			fmt.Fprintf(&b, " [chain %d starts at %d, previous chains end at %d]", k, ch.Start, next)
		}
		next = ch.Start + ch.Length
	}
	if next != n {
		fmt.Fprintf(&b, " [chains cover %d of %d edges]", next, n)
	}
	idx := s2.NewShapeIndex()
	idx.Add(p)
	fmt.Fprintf(&b, " contains=%v direct=%v sorted-edges=%v", s2.NewContainsPointQuery(idx, s2.VertexModelSemiOpen).Contains(q), p.ContainsPoint(q), es)
	return b.String()
}

func probeOr(p, def gen.P) s2.Point {
	if p == (gen.P{}) {
		return def.Pt()
	}
	return p.Pt()
}

func firstDiff(a, b string) string {
	i := 0
	for i < len(a) && i < len(b) && a[i] == b[i] {
		i++
	}
	lo := i - 60
	if lo < 0 {
		lo = 0
	}
	cut := func(s string) string {
		hi := i + 80
		if hi > len(s) {
			hi = len(s)
		}
		if lo > len(s) {
			return ""
		}
		return s[lo:hi]
	}
	return fmt.Sprintf("…%s…  vs fresh  …%s…", cut(a), cut(b))
}

// shapeAnswers uses the object as a Shape of an outer index.
func shapeAnswers(s s2.Shape, p s2.Point) string {
	idx := s2.NewShapeIndex()
	idx.Add(s)
	q := s2.NewContainsPointQuery(idx, s2.VertexModelSemiOpen)
	var b strings.Builder
	fmt.Fprintf(&b, "contains=%v ref=%v edges=%d", q.Contains(p), s.ReferencePoint(), s.NumEdges())
	n := s.NumEdges()
	for _, e := range []int{0, n / 2, n - 1} {
		if e >= 0 && e < n {
			fmt.Fprintf(&b, " e%d=%v", e, s.Edge(e))
		}
	}
	fmt.Fprintf(&b, " cells=%v", s2.VerifIndexCells(idx))
	return b.String()
}

func checkLoopHistory(c lpHistory) ev.Outcome {
	return guarded(c, func() ev.Outcome { return runLoopHistory(c) }, func(msg string) string {
		if c.Family == "emptypoly" || c.Family == "fullpoly" {
			return "full-polygon-nil-index"
		}
		return ""
	})
}

func runLoopHistory(c lpHistory) ev.Outcome {
	o := ev.Outcome{}
	switch c.Family {
	case "loop":
		if len(c.L.V) < 3 || c.L.Loop().Validate() != nil {
			o.Skip = true
			return o
		}
	case "polygon":
		if len(c.R.Rings) == 0 || c.R.Polygon().Validate() != nil {
			o.Skip = true
			return o
		}
	case "emptyloop", "fullloop", "emptypoly", "fullpoly":
	default:
		o.Skip = true
		return o
	}
	for _, oc := range c.Others {
		if len(oc.V) < 3 || oc.Loop().Validate() != nil {
			o.Skip = true
			return o
		}
	}
	poly := c.isPolygon()
	var hl *s2.Loop
	var hp *s2.Polygon
	nverts := len(c.boundaryVerts())
	if poly {
		hp = c.freshPolygon(false)
	} else {
		hl = c.freshLoop(false)
	}
	// long-lived partners for relation queries
	otherLoops := make([]*s2.Loop, len(c.Others))
	otherPolys := make([]*s2.Polygon, len(c.Others))
	for i, oc := range c.Others {
		otherLoops[i] = oc.Loop()
		otherPolys[i] = s2.PolygonFromLoops([]*s2.Loop{oc.Loop()})
	}
	odd := false
	inverts, invertsWhileBuilt, ntQueries, queries := 0, 0, 0, 0
	indexed := (!poly && nverts > 32) || (poly && nverts >= 32)

	histIndexBuilt := func() bool {
		if poly {
			ix := s2.VerifPolygonIndex(hp)
			return ix != nil && ix.IsFresh() && len(s2.VerifIndexCells(ix)) > 0
		}
		ix := s2.VerifLoopIndex(hl)
		return ix != nil && ix.IsFresh() && len(s2.VerifIndexCells(ix)) > 0
	}
	_ = histIndexBuilt

	built := false // internal index known to be built (by a build op or an indexed query)
	fail := func(i int, msg string) ev.Outcome {
		var h []string
		for _, op := range c.Ops[:i] {
			h = append(h, op.Kind)
		}
		o.Err = fmt.Sprintf("%s (%d vertices), op %d (%s) after %v: %s", c.Family, nverts, i, c.Ops[i].Kind, h, msg)
		switch {
		case c.special() && poly:
			o.Finding = "full-polygon-nil-index"
		case invertsWhileBuilt > 0:
			o.Finding = "invert-after-build"
		case inverts > 0:
			o.Finding = "invert-state"
		}
		o.NonTrivial = true
		return o
	}

	for i, op := range c.Ops {
		switch op.Kind {
		case "invert":
			if built {
				invertsWhileBuilt++
			}
			inverts++
			if poly {
				hp.Invert()
			} else {
				hl.Invert()
			}
			odd = !odd
			built = false
			continue
		case "normalize":
			if poly {
				continue
			}
			want := c.freshLoop(odd).IsNormalized()
			if got := hl.IsNormalized(); got != want {
				return fail(i, fmt.Sprintf("IsNormalized() = %v, fresh loop says %v", got, want))
			}
			hl.Normalize()
			if !want {
				if built {
					invertsWhileBuilt++
				}
				inverts++
				odd = !odd
				built = false
			}
			continue
		case "build":
			if poly {
				if ix := s2.VerifPolygonIndex(hp); ix != nil {
					ix.Build()
				}
			} else {
				s2.VerifLoopIndex(hl).Build()
			}
			built = true
			continue
		}
		queries++
		if (inverts > 0 && c.special()) || invertsWhileBuilt > 0 {
			ntQueries++
		}
		var got, want string
		switch op.Kind {
		case "contains":
			p := op.P.Pt()
			var g, w, base bool
			if poly {
				g, w, base = hp.ContainsPoint(p), c.freshPolygon(odd).ContainsPoint(p), c.freshPolygon(false).ContainsPoint(p)
			} else {
				g, w, base = hl.ContainsPoint(p), c.freshLoop(odd).ContainsPoint(p), c.freshLoop(false).ContainsPoint(p)
			}
			if g != w {
				return fail(i, fmt.Sprintf("ContainsPoint(%v) = %v, fresh object from the model (inverted=%v) says %v", p, g, odd, w))
			}
			if g != (base != odd) {
				return fail(i, fmt.Sprintf("ContainsPoint(%v) = %v after %d Inverts, but the never-inverted object says %v", p, g, inverts, base))
			}
			if indexed {
				built = true
			}
			continue
		case "cell":
			id := s2.CellID(op.Cell)
			if !id.IsValid() {
				o.Skip = true
				return o
			}
			cell := s2.CellFromCellID(id)
			if poly {
				f := c.freshPolygon(odd)
				got = fmt.Sprintf("ContainsCell=%v IntersectsCell=%v", hp.ContainsCell(cell), hp.IntersectsCell(cell))
				want = fmt.Sprintf("ContainsCell=%v IntersectsCell=%v", f.ContainsCell(cell), f.IntersectsCell(cell))
			} else {
				f := c.freshLoop(odd)
				got = fmt.Sprintf("ContainsCell=%v IntersectsCell=%v", hl.ContainsCell(cell), hl.IntersectsCell(cell))
				want = fmt.Sprintf("ContainsCell=%v IntersectsCell=%v", f.ContainsCell(cell), f.IntersectsCell(cell))
			}
			built = true
			if got != want {
				return fail(i, fmt.Sprintf("cell %v: %s, fresh object says %s", id, got, want))
			}
			continue
		case "relate":
			if op.Other < 0 || op.Other >= len(c.Others) {
				o.Skip = true
				return o
			}
			if poly {
				ho, fo, f := otherPolys[op.Other], s2.PolygonFromLoops([]*s2.Loop{c.Others[op.Other].Loop()}), c.freshPolygon(odd)
				got = fmt.Sprintf("Contains=%v Intersects=%v o.Contains=%v o.Intersects=%v", hp.Contains(ho), hp.Intersects(ho), ho.Contains(hp), ho.Intersects(hp))
				want = fmt.Sprintf("Contains=%v Intersects=%v o.Contains=%v o.Intersects=%v", f.Contains(fo), f.Intersects(fo), fo.Contains(f), fo.Intersects(f))
			} else {
				ho, fo, f := otherLoops[op.Other], c.Others[op.Other].Loop(), c.freshLoop(odd)
				got = fmt.Sprintf("Contains=%v Intersects=%v o.Contains=%v o.Intersects=%v Equal=%v BoundaryEqual=%v", hl.Contains(ho), hl.Intersects(ho), ho.Contains(hl), ho.Intersects(hl), hl.Equal(ho), hl.BoundaryEqual(ho))
				want = fmt.Sprintf("Contains=%v Intersects=%v o.Contains=%v o.Intersects=%v Equal=%v BoundaryEqual=%v", f.Contains(fo), f.Intersects(fo), fo.Contains(f), fo.Intersects(f), f.Equal(fo), f.BoundaryEqual(fo))
			}
			if got != want {
				return fail(i, fmt.Sprintf("relations with other loop %d: %s, fresh objects say %s", op.Other, got, want))
			}
			continue
		case "measure":
			if poly && len(c.More) > 0 {
				// several top-level shells: which shell Invert reverses, and the loop
				// order it leaves, are representation; compare the order-free facts
				got, want = semanticPolygon(hp, probeOr(op.P, c.R.Center)), semanticPolygon(c.freshPolygon(odd), probeOr(op.P, c.R.Center))
			} else if poly {
				got, want = measurePolygon(hp), measurePolygon(c.freshPolygon(odd))
			} else {
				got, want = measureLoop(hl), measureLoop(c.freshLoop(odd))
			}
			if got != want {
				return fail(i, "measures differ: "+firstDiff(got, want))
			}
			continue
		case "encode":
			if poly && len(c.More) > 0 {
				continue // the byte stream depends on the loop order
			}
			var gb, wb bytes.Buffer
			var ge, we error
			if poly {
				ge, we = hp.Encode(&gb), c.freshPolygon(odd).Encode(&wb)
			} else {
				ge, we = hl.Encode(&gb), c.freshLoop(odd).Encode(&wb)
			}
			if (ge == nil) != (we == nil) || !bytes.Equal(gb.Bytes(), wb.Bytes()) {
				return fail(i, fmt.Sprintf("Encode gives %d bytes (err %v), fresh object %d bytes (err %v); first difference at byte %d", gb.Len(), ge, wb.Len(), we, firstByteDiff(gb.Bytes(), wb.Bytes())))
			}
			continue
		case "shape":
			if poly && len(c.More) > 0 {
				got, want = semanticPolygon(hp, probeOr(op.P, c.R.Center)), semanticPolygon(c.freshPolygon(odd), probeOr(op.P, c.R.Center))
			} else if poly {
				got, want = shapeAnswers(hp, op.P.Pt()), shapeAnswers(c.freshPolygon(odd), op.P.Pt())
			} else {
				got, want = shapeAnswers(hl, op.P.Pt()), shapeAnswers(c.freshLoop(odd), op.P.Pt())
			}
			if got != want {
				return fail(i, "as a Shape of an outer index: "+firstDiff(got, want))
			}
			continue
		default:
			o.Skip = true
			return o
		}
	}
	o.NonTrivial = ntQueries > 0
	o.Class = fmt.Sprintf("%s/indexed=%v/invertsWhileBuilt=%s", c.Family, indexed, bucket(invertsWhileBuilt))
	o.Counts = map[string]int{"queries": queries, "queries_after_invert_while_built": ntQueries, "inverts": inverts}
	return o
}

func firstByteDiff(a, b []byte) int {
	i := 0
	for i < len(a) && i < len(b) && a[i] == b[i] {
		i++
	}
	return i
}
