// Package c13: answers depend on current geometry and options only, never on call history.
//
// Every sub-check generates an operation history AS DATA (a slice of op
// structs), runs it against long-lived objects (one ShapeIndex, one Loop or
// Polygon, one EdgeQuery / ContainsPointQuery / CrossingEdgeQuery) and compares
// every answer with the answer of FRESH objects that reach the same model
// state by the shortest sequence (new index + Adds in order; new loop from the
// model's vertex list; new query object built from the configured options).
// For loops and polygons there is a second, construction-based oracle: the
// never-inverted object and the parity of Invert calls.
//
// A history runs on its own goroutine under recover and a 20 s timer: a panic
// is a failing outcome (Finding "panic" unless narrowed); a history that misses
// the deadline is run once more with twice the deadline and reported as
// Finding "hang" if it misses that too (the goroutines are abandoned). Cases
// are journaled before they run, so that a process-level abort is attributed
// to its history by the driver.
package c13

import (
	"encoding/json"
	"fmt"
	"math"
	"os"
	"path/filepath"
	"reflect"
	"runtime/debug"
	"strings"
	"time"

	"github.com/golang/geo/s1"
	"github.com/golang/geo/s2"
	"pgregory.net/rapid"

	"verifharness/internal/ev"
	"verifharness/internal/gen"
)

const hangDeadline = 20 * time.Second

// guarded runs f on its own goroutine with recover and a deadline.
// panicFinding (may be nil) narrows the finding class of a panic.
//
// A history that misses the deadline is run a second time with twice the
// deadline before it is reported as a hang: the machine that runs the checks
// can be oversubscribed tenfold, and a stall of one process must not be
// reported as a defect of the library. A self-deadlock or an unbounded loop
// misses both deadlines. Every first-attempt timeout is counted
// (Counts["deadline_missed_once"]) and its case is written to
// $VERIF_OUT/c13-slow.<pid>.<n>.json so that it can be replayed.
func guarded(c any, f func() ev.Outcome, panicFinding func(msg string) string) ev.Outcome {
	o, ok := attempt(f, panicFinding, hangDeadline)
	if ok {
		return o
	}
	dumpSlow(c)
	o, ok = attempt(f, panicFinding, 2*hangDeadline)
	if ok {
		if o.Counts == nil {
			o.Counts = map[string]int{}
		}
		o.Counts["deadline_missed_once"]++
		return o
	}
	return ev.Outcome{Err: fmt.Sprintf("history did not finish within %v, and again not within %v (self-deadlock or unbounded loop)", hangDeadline, 2*hangDeadline), Finding: "hang", NonTrivial: true, Class: "hang"}
}

var slowDumps int

func dumpSlow(c any) {
	d := os.Getenv("VERIF_OUT")
	if d == "" || slowDumps >= 20 {
		return
	}
	slowDumps++
	if b, err := json.Marshal(c); err == nil {
		os.WriteFile(filepath.Join(d, fmt.Sprintf("c13-slow.%d.%d.json", os.Getpid(), slowDumps)), b, 0o644)
	}
}

func attempt(f func() ev.Outcome, panicFinding func(msg string) string, deadline time.Duration) (ev.Outcome, bool) {
	done := make(chan ev.Outcome, 1)
	go func() {
		var o ev.Outcome
		defer func() {
			if r := recover(); r != nil {
				msg := fmt.Sprint(r)
				o = ev.Outcome{Err: fmt.Sprintf("panic: %v\n%s", r, libFrames(string(debug.Stack()))), Finding: "panic", NonTrivial: true}
				if panicFinding != nil {
					if c := panicFinding(msg); c != "" {
						o.Finding = c
					}
				}
			}
			done <- o
		}()
		o = f()
	}()
	t := time.NewTimer(deadline)
	defer t.Stop()
	select {
	case o := <-done:
		return o, true
	case <-t.C:
		return ev.Outcome{}, false
	}
}

// libFrames keeps the library frames of a panic stack.
func libFrames(st string) string {
	lines := strings.Split(st, "\n")
	var out []string
	seenPanic := false
	for i := 0; i+1 < len(lines); i++ {
		l := lines[i]
		if strings.HasPrefix(l, "panic(") {
			seenPanic = true
			continue
		}
		if !seenPanic {
			continue
		}
		if strings.HasPrefix(l, "github.com/golang/geo/") || strings.HasPrefix(l, "verifharness/c13.") {
			out = append(out, l, strings.TrimSpace(lines[i+1]))
			if len(out) >= 24 {
				break
			}
		}
	}
	return strings.Join(out, "\n")
}

// ---------------------------------------------------------------- shapes

func buildShapes(specs []gen.ShapeSpec) []s2.Shape {
	out := make([]s2.Shape, len(specs))
	for i, s := range specs {
		out[i] = s.Build()
	}
	return out
}

func allVerts(specs []gen.ShapeSpec) []gen.P {
	var v []gen.P
	for _, s := range specs {
		for _, l := range s.Loops {
			v = append(v, l...)
		}
	}
	return v
}

func totalEdges(specs []gen.ShapeSpec) int {
	n := 0
	for _, s := range specs {
		n += s.NumEdges()
	}
	return n
}

func indexOfShapes(shapes []s2.Shape) *s2.ShapeIndex {
	idx := s2.NewShapeIndex()
	for _, s := range shapes {
		idx.Add(s)
	}
	return idx
}

func shapePos(shapes []s2.Shape, s s2.Shape) int {
	for i, x := range shapes {
		if x == s {
			return i
		}
	}
	return -1
}

// ---------------------------------------------------------------- distance targets

// tspec is a plain-data distance target.
type tspec struct {
	Kind string // point | edge | cell | index
	P    gen.P  // point; edge V0
	B    gen.P  // edge V1
	Cell uint64
}

func (t tspec) String() string {
	switch t.Kind {
	case "point":
		return fmt.Sprintf("point%v", t.P)
	case "edge":
		return fmt.Sprintf("edge%v-%v", t.P, t.B)
	case "cell":
		return "cell " + s2.CellID(t.Cell).String()
	}
	return "index"
}

// makeTarget builds a new library target object. The concrete target types are
// exported but their common interface is not, so targets travel as `any` and
// the EdgeQuery methods are invoked through reflection (eqCall).
func makeTarget(t tspec, furthest bool, tshapes []gen.ShapeSpec) any {
	switch t.Kind {
	case "point":
		if furthest {
			return s2.NewMaxDistanceToPointTarget(t.P.Pt())
		}
		return s2.NewMinDistanceToPointTarget(t.P.Pt())
	case "edge":
		e := s2.Edge{V0: t.P.Pt(), V1: t.B.Pt()}
		if furthest {
			return s2.NewMaxDistanceToEdgeTarget(e)
		}
		return s2.NewMinDistanceToEdgeTarget(e)
	case "cell":
		c := s2.CellFromCellID(s2.CellID(t.Cell))
		if furthest {
			return s2.NewMaxDistanceToCellTarget(c)
		}
		return s2.NewMinDistanceToCellTarget(c)
	case "index":
		ti := indexOfShapes(buildShapes(tshapes))
		if furthest {
			return s2.NewMaxDistanceToShapeIndexTarget(ti)
		}
		return s2.NewMinDistanceToShapeIndexTarget(ti)
	}
	panic("c13: unknown target kind " + t.Kind)
}

// edgeRes is one EdgeQueryResult as plain data.
type edgeRes struct {
	D    float64
	S, E int32
}

// eqAnswer is the answer of one EdgeQuery call.
type eqAnswer struct {
	Res  []edgeRes
	Dist float64
	Bool bool
	raw  []s2.EdgeQueryResult // the slice FindEdges returned, as returned (to see whether later calls rewrite it)
}

// eqCall invokes an EdgeQuery method by name: FindEdges, Distance,
// IsDistanceLess, IsDistanceGreater, IsConservativeDistanceLessOrEqual,
// IsConservativeDistanceGreaterOrEqual.
func eqCall(q *s2.EdgeQuery, method string, target any, limit s1.ChordAngle) eqAnswer {
	m := reflect.ValueOf(q).MethodByName(method)
	if !m.IsValid() {
		panic("c13: no EdgeQuery method " + method)
	}
	args := []reflect.Value{reflect.ValueOf(target)}
	if method != "FindEdges" && method != "Distance" {
		args = append(args, reflect.ValueOf(limit))
	}
	out := m.Call(args)
	var a eqAnswer
	switch method {
	case "FindEdges":
		rs := out[0].Interface().([]s2.EdgeQueryResult)
		a.raw = rs
		a.Res = make([]edgeRes, len(rs))
		for i, r := range rs {
			a.Res[i] = edgeRes{D: float64(r.Distance()), S: r.ShapeID(), E: r.EdgeID()}
		}
	case "Distance":
		a.Dist = float64(out[0].Interface().(s1.ChordAngle))
	default:
		a.Bool = out[0].Bool()
	}
	return a
}

// rewritten reports whether the slice a FindEdges call returned no longer holds
// the results it held when it was returned.
func (a eqAnswer) rewritten() bool {
	if len(a.raw) != len(a.Res) {
		return true
	}
	for i, r := range a.raw {
		if (edgeRes{D: float64(r.Distance()), S: r.ShapeID(), E: r.EdgeID()}) != a.Res[i] {
			return true
		}
	}
	return false
}

// qcfg are the options a caller configures on an EdgeQuery.
type qcfg struct {
	Furthest  bool
	K         int     // MaxResults; 0 = not set (all results)
	Limit     float64 // DistanceLimit as a chord angle (squared chord length); < 0 = not set
	MaxErr    float64 // MaxError as a chord angle; 0 = not set
	Interiors bool
	Brute     bool
}

func (c qcfg) String() string {
	return fmt.Sprintf("{furthest=%v K=%d limit=%g maxErr=%g interiors=%v brute=%v}", c.Furthest, c.K, c.Limit, c.MaxErr, c.Interiors, c.Brute)
}

func (c qcfg) options() *s2.EdgeQueryOptions {
	var o *s2.EdgeQueryOptions
	if c.Furthest {
		o = s2.NewFurthestEdgeQueryOptions()
	} else {
		o = s2.NewClosestEdgeQueryOptions()
	}
	if c.K > 0 {
		o.MaxResults(c.K)
	}
	if c.Limit >= 0 {
		o.DistanceLimit(s1.ChordAngle(c.Limit))
	}
	if c.MaxErr > 0 {
		o.MaxError(s1.ChordAngle(c.MaxErr))
	}
	o.IncludeInteriors(c.Interiors)
	o.UseBruteForce(c.Brute)
	return o
}

func (c qcfg) query(idx *s2.ShapeIndex, o *s2.EdgeQueryOptions) *s2.EdgeQuery {
	if c.Furthest {
		return s2.NewFurthestEdgeQuery(idx, o)
	}
	return s2.NewClosestEdgeQuery(idx, o)
}

// distTol is the tolerance for comparing two SINGLE-result distances (written
// down before running, DESIGN.md §2.5: the documented error of UpdateMinDistance,
// minUpdateDistanceMaxError, re-implemented from its doc comment). While a
// single-result search runs, the current best distance is passed to
// UpdateMinDistance as a cut-off, and which of its two formulas (edge interior
// / nearest endpoint) produces an edge's distance depends on that cut-off; the
// two formulas agree only to within the documented error. The order in which
// edges are met (Go map order in the brute-force path, k = 1 shortcut on an
// already built index) therefore moves a single result by up to that error.
// Two values each within E of the truth differ by at most 2E; furthest-edge
// distances are computed as π minus a minimum distance to the antipode, so the
// bound is taken at d and at 4-d; factor 2 more for edge and index targets
// (several UpdateMinDistance calls per edge pair).
func distTol(d float64) float64 {
	e := func(d float64) float64 {
		if d < 0 {
			d = 0
		}
		if d > 4 {
			d = 4
		}
		const eps = 0x1p-52 // dblEpsilon
		sqrt3 := math.Sqrt(3)
		interior := 0.0
		if d < 2 {
			b := math.Min(1.0, 0.5*d)
			a := math.Sqrt(b * (2 - b))
			interior = ((2.5+2*sqrt3+8.5*a)*a + (2+2*sqrt3/3+6.5*(1-b))*b + (23+16/sqrt3)*eps) * eps
		}
		point := 2.5*eps*d + 16*eps*eps
		return math.Max(interior, point)
	}
	return 4 * math.Max(e(d), e(4-d))
}

// sameAnswer compares two answers of the same call under configuration c and
// returns a description of the difference ("" if none) and the worst
// |difference|/tolerance ratio of the single-result distances it compared.
//
// Multi-result answers (MaxResults != 1) are compared exactly: every edge within
// the configured limit is reported with a distance computed against that fixed
// limit, results are sorted by (distance, shape, edge) and truncated.
// With MaxResults == 1 the library keeps the first edge it meets among edges at
// the same distance, so only the distance of a single result is compared (distTol).
// With MaxError > 0 a single result is not compared at all: the search limit
// becomes distance-MaxError by plain float subtraction, goes negative, and
// crossing edges are then recorded with that negative limit as their distance.
func sameAnswer(method string, c qcfg, got, want eqAnswer) (string, float64) {
	ratio := 0.0
	close := func(a, b float64) bool {
		if a == b || c.MaxErr > 0 {
			return true
		}
		if math.IsInf(a, 0) || math.IsInf(b, 0) || math.IsNaN(a) || math.IsNaN(b) || a < 0 || b < 0 {
			return false
		}
		r := math.Abs(a-b) / distTol(math.Max(a, b))
		if r > ratio {
			ratio = r
		}
		return r <= 1
	}
	switch method {
	case "FindEdges":
		if len(got.Res) != len(want.Res) {
			return fmt.Sprintf("%d results, fresh query gives %d", len(got.Res), len(want.Res)), ratio
		}
		for i := range got.Res {
			g, w := got.Res[i], want.Res[i]
			if c.K == 1 {
				if !close(g.D, w.D) {
					return fmt.Sprintf("single result at distance %v, fresh query gives %v", g.D, w.D), ratio
				}
				continue
			}
			if g != w {
				return fmt.Sprintf("result %d is %+v, fresh query gives %+v", i, g, w), ratio
			}
		}
	case "Distance":
		if !close(got.Dist, want.Dist) {
			return fmt.Sprintf("distance %v (%.12g deg), fresh query gives %v (%.12g deg)", got.Dist, s1.ChordAngle(got.Dist).Angle().Degrees(), want.Dist, s1.ChordAngle(want.Dist).Angle().Degrees()), ratio
		}
	default:
		if got.Bool != want.Bool {
			return fmt.Sprintf("%v, fresh query gives %v", got.Bool, want.Bool), ratio
		}
	}
	return "", ratio
}

// findingOptimizedVsBrute is the class of failures whose root cause is that the
// optimized edge search itself is incomplete (DESIGN.md §5 rows 5-7, property
// C08): the fresh optimized answer differs from the fresh brute-force answer.
// Whether the k = 1 shortcut of initQueue masks the defect depends on whether
// the index happened to be built already, which is how it shows up here.
const findingOptimizedVsBrute = "optimized-differs-from-brute-force"

// optimizedDiffersFromBrute reports whether, on fresh objects, the configured
// (optimized) query and the same query with UseBruteForce disagree.
func optimizedDiffersFromBrute(c qcfg, method string, shapes []gen.ShapeSpec, mkTarget func() any, limit s1.ChordAngle, want eqAnswer) bool {
	if c.Brute {
		return false
	}
	bc := c
	bc.Brute = true
	b := eqCall(bc.query(indexOfShapes(buildShapes(shapes)), bc.options()), method, mkTarget(), limit)
	d, _ := sameAnswer(method, c, want, b)
	return d != ""
}

// ---------------------------------------------------------------- generators shared by the sub-checks

func drawPool(t *rapid.T, label string, maxShapes, maxEdges int) []gen.ShapeSpec {
	return gen.ShapeSet(t, label, maxShapes, maxEdges)
}

// drawPoolWithEmpties is drawPool for index histories (see below).
func drawPoolWithEmpties(t *rapid.T, label string, maxShapes, maxEdges int) []gen.ShapeSpec {
	pool := gen.ShapeSet(t, label, maxShapes, maxEdges)
	// In 1 of 4 pools, add one or two shapes without any edge or interior (empty
	// polyline / point vector / lax polyline, one-vertex polyline): an index
	// whose first build saw only such shapes has no cells at all, a state that
	// later additions must still handle.
	if rapid.IntRange(0, 3).Draw(t, label+".empties") == 0 {
		k := rapid.IntRange(1, 2).Draw(t, label+".nempty")
		for i := 0; i < k; i++ {
			typ := rapid.SampledFrom([]string{"polyline", "points", "laxpolyline", "polyline1"}).Draw(t, label+".etype")
			spec := gen.ShapeSpec{Type: typ, Loops: [][]gen.P{{}}}
			if typ == "polyline1" {
				if av := allVerts(pool); len(av) > 0 {
					spec = gen.ShapeSpec{Type: "polyline", Loops: [][]gen.P{{av[0]}}}
				} else {
					spec = gen.ShapeSpec{Type: "polyline", Loops: [][]gen.P{{}}}
				}
			}
			// put them first in half of the cases, so that histories often start with them
			if rapid.Bool().Draw(t, label+".efirst") {
				pool = append([]gen.ShapeSpec{spec}, pool...)
			} else {
				pool = append(pool, spec)
			}
		}
	}
	return pool
}

// drawTarget draws a point / edge / cell target near the given vertices.
func drawTarget(t *rapid.T, label string, verts []gen.P, allowIndex bool) tspec {
	hi := 5
	if allowIndex {
		hi = 7
	}
	ps := gen.ProbePoints(t, label+".p", verts, 2)
	switch k := rapid.IntRange(0, hi).Draw(t, label+".kind"); {
	case k <= 2:
		return tspec{Kind: "point", P: ps[0]}
	case k <= 4:
		a := ps[0].Pt()
		// second endpoint: a short hop from the first (never antipodal, never equal)
		b := ps[1].Pt()
		if a == b || a.Dot(b.Vector) < 0.5 || rapid.Bool().Draw(t, label+".short") {
			v := verts[rapid.IntRange(0, len(verts)-1).Draw(t, label+".ev")].Pt()
			b = gen.Fix(s2.Interpolate(rapid.Float64Range(0.05, 1).Draw(t, label+".ef"), a, v), v)
			if a.Dot(b.Vector) < 0.5 {
				b = gen.Fix(s2.Interpolate(0.1, a, b), b)
			}
		}
		if a == b {
			return tspec{Kind: "point", P: ps[0]}
		}
		return tspec{Kind: "edge", P: gen.FromPt(a), B: gen.FromPt(b)}
	case k == 5:
		lvl := rapid.IntRange(0, 30).Draw(t, label+".lvl")
		if rapid.Bool().Draw(t, label+".coarse") {
			lvl = rapid.IntRange(0, 12).Draw(t, label+".lvl2")
		}
		return tspec{Kind: "cell", Cell: uint64(s2.CellFromPoint(ps[0].Pt()).ID().Parent(lvl))}
	default:
		return tspec{Kind: "index"}
	}
}

// vertexDistance returns the chord angle between the target's anchor point and a vertex.
func vertexDistance(ts tspec, verts []gen.P, k int) float64 {
	var a s2.Point
	switch ts.Kind {
	case "cell":
		a = s2.CellID(ts.Cell).Point()
	case "index":
		a = verts[0].Pt()
	default:
		a = ts.P.Pt()
	}
	return float64(s2.ChordAngleBetweenPoints(a, verts[k%len(verts)].Pt()))
}

// drawLimit draws a threshold near a real distance (so that both answers occur) or a generic one.
func drawLimit(t *rapid.T, label string, ts tspec, verts []gen.P) float64 {
	switch rapid.IntRange(0, 5).Draw(t, label+".lk") {
	case 0:
		return float64(s1.ChordAngleFromAngle(s1.Angle(math.Exp(rapid.Float64Range(math.Log(1e-6), math.Log(3)).Draw(t, label+".la")))))
	case 1:
		return rapid.SampledFrom([]float64{0, 4, 2, 1e-15}).Draw(t, label+".lc")
	default:
		d := vertexDistance(ts, verts, rapid.IntRange(0, len(verts)-1).Draw(t, label+".lv"))
		f := rapid.SampledFrom([]float64{0.25, 0.9, 1, 1 + 0x1p-40, 1.1, 2, 4}).Draw(t, label+".lf")
		return math.Min(4, d*f)
	}
}

func bucket(n int) string {
	switch {
	case n == 0:
		return "0"
	case n <= 2:
		return "1-2"
	case n <= 8:
		return "3-8"
	case n <= 30:
		return "9-30"
	}
	return ">30"
}

func init() {
	maxOps := "25"
	if ev.Thorough() {
		maxOps = "60"
	}
	ev.Define("index_history", ev.Options{
		Rule:  "a pool of 1..6 shapes of the seven Shape types (1/2/3/6 centres, ≤ ~200 edges) and a history of ≤ " + maxOps + " ops on ONE ShapeIndex: Add(pool shape), Build, Reset, and queries made with query objects created at that moment: ContainsPointQuery (3 vertex models: Contains, ContainingShapes, ShapeContains per shape), CrossingEdgeQuery (Crossings per shape, CrossingsEdgeMap, both crossing types), closest/furthest EdgeQuery (FindEdges/Distance, point/edge/cell targets, MaxResults/DistanceLimit/IncludeInteriors/UseBruteForce), full cell walk (VerifIndexCells: cell ids, clipped shapes, containsCenter, edge lists), iterator LocatePoint/LocateCellID/End, Len/NumEdges/Shape(id). Oracle: the same query on a fresh index holding fresh copies of the model's shapes in Add order (ids restart after Reset), deep equality (single-result calls: distance only, because ties are broken by Go map order). Remove is outside the property's alphabet and never generated. Non-trivial: some query is answered after ≥ 1 Add onto an already built non-empty index, or after a Reset of a built index.",
		Quick: 5000, Thorough: 120000, Journal: true}, genIndexHistory, checkIndexHistory)
	ev.Define("loop_polygon_history", ev.Options{
		Rule:  "one Loop (regular/star/lattice/cell families, 3..300 vertices with mass on 31..33 and 63..65, 1/4 inverted, plus the special empty and full loops) or one Polygon (1..5 concentric rings, plus the empty and full polygons) and a history of ≤ " + maxOps + " ops: Invert, Normalize (loops), force-build of the internal index, ContainsPoint, ContainsCell/IntersectsCell (cells around the boundary and the loop's own index cells, parents, children), Contains/Intersects with other loops/polygons (both directions; the other object is long-lived too), RectBound/CapBound/Area/TurningAngle/Centroid/ContainsOrigin/IsNormalized/ReferencePoint/vertices, Encode bytes, use as a Shape of an outer index. Oracle 1: a fresh object built from the model (original vertex lists, outer ring reversed iff the number of Inverts is odd): every answer identical, Encode bit-identical. Oracle 2 (construction): ContainsPoint of the never-inverted fresh object XOR parity. Non-trivial: a query after ≥ 1 Invert that happened while the internal index was built (by a Build op, a cell or relation query, or an indexed ContainsPoint: loops > 32 vertices / polygons ≥ 32 vertices), or any query on a special empty/full object after Invert.",
		Quick: 5000, Thorough: 120000, Journal: true}, genLoopHistory, checkLoopHistory)
	ev.Define("edge_query_reuse", ev.Options{
		Rule:  "a fixed index (1..6 shapes, brute-force and optimized sizes) and ONE closest or furthest EdgeQuery configured once (MaxResults, DistanceLimit, MaxError, IncludeInteriors, UseBruteForce) that answers ≤ " + maxOps + " calls: FindEdges, Distance, IsDistanceLess/Greater, IsConservativeDistanceLessOrEqual/GreaterOrEqual with varying point/edge/cell/ShapeIndex targets and thresholds drawn around real distances, Reset, and re-creation of the query from the caller's same options object. Oracle: a new query built from newly built options with the configured values, on a fresh copy of the index, with a new target object. Target objects are new per call (FreshTargets) or shared between calls; a failure that needs a shared ShapeIndex target is classed target-reuse-maxerror. Non-trivial: a FindEdges/Distance call answered after a threshold or single-result call on the same query.",
		Quick: 4000, Thorough: 120000, Journal: true}, genEQReuse, checkEQReuse)
	ev.Define("point_crossing_query_reuse", ev.Options{
		Rule:  "a fixed index and long-lived query objects (one ContainsPointQuery per vertex model, one CrossingEdgeQuery) answering ≤ " + maxOps + " calls with varying points/edges/shapes/crossing types; oracle: new query objects on a fresh copy of the index per call. Non-trivial: ≥ 2 calls on one object, index with ≥ 2 cells.",
		Quick: 2500, Thorough: 80000, Journal: true}, genPQReuse, checkPQReuse)
	ev.Define("stale_query_objects", ev.Options{
		Rule:  "query objects (ContainsPointQuery, CrossingEdgeQuery, closest EdgeQuery) created on an index BEFORE a later Add (optionally used once before it, optionally followed by an explicit Build, optionally EdgeQuery.Reset; in 1/3 of cases the index is Reset first, and in half of those the SAME earlier shape objects are added again after the later ones, so they sit under other ids; the objects used before have answered per-shape calls - ShapeContains, Crossings - for the earlier shapes, the EdgeQuery also single-result calls, which stop early) and then asked (each of the three ContainsPointQuery methods, and either CrossingEdgeQuery method, comes first in some cases - any one of them may be the call that notices the pending update); oracle: new query objects on a fresh index with all shapes. Kept separate because the defect (Finding stale-query-object) would mask everything else; Counts record which method disagreed. Non-trivial: the later shape changes some fresh answer.",
		Quick: 4000, Thorough: 60000, Journal: true}, genStale, checkStale)
}
