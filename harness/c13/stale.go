package c13

import (
	"fmt"
	"reflect"
	"sort"
	"strings"

	"github.com/golang/geo/s2"
	"pgregory.net/rapid"

	"verifharness/internal/ev"
	"verifharness/internal/gen"
)

// staleCase: query objects created on an index BEFORE a later Add.
type staleCase struct {
	// Which query object is exercised: cpq | ceq | eq (one per case, because
	// some calls apply the pending update as a side effect and would hide
	// the staleness of the others)
	Which         string
	Before        []gen.ShapeSpec
	After         []gen.ShapeSpec
	UseBefore     bool // every query object answers one call before the later Add
	BuildAfterAdd bool // explicit index.Build() after the later Add
	ResetEQ       bool // EdgeQuery.Reset() after the later Add
	ResetIndex    bool // index.Reset() before the later Add: the index then holds the later shapes only
	First         int  // which method (and vertex model) is asked first after the change: the first call is the one that has to notice it
	Readd         bool // with ResetIndex: the SAME earlier shape objects are added again after the later ones (they get other ids)
	Probes        []gen.P
	Cfg           qcfg
}

func genStale(t *rapid.T) staleCase {
	c := staleCase{Which: rapid.SampledFrom([]string{"cpq", "ceq", "eq"}).Draw(t, "which")}
	all := drawPool(t, "shapes", 6, rapid.SampledFrom([]int{30, 100, 300}).Draw(t, "maxEdges"))
	if len(all) < 2 {
		all = append(all, all[0])
	}
	k := rapid.IntRange(1, len(all)-1).Draw(t, "split")
	c.Before, c.After = all[:k], all[k:]
	c.UseBefore = rapid.Bool().Draw(t, "useBefore")
	c.BuildAfterAdd = rapid.Bool().Draw(t, "buildAfterAdd")
	c.ResetEQ = rapid.Bool().Draw(t, "resetEQ")
	c.ResetIndex = rapid.IntRange(0, 2).Draw(t, "resetIndex") == 0
	if c.Which == "eq" && rapid.Bool().Draw(t, "eqreset") {
		// a used EdgeQuery whose index is Reset and refilled with less
		c.ResetIndex, c.UseBefore = true, true
	}
	c.Readd = c.ResetIndex && rapid.Bool().Draw(t, "readd")
	c.First = rapid.IntRange(0, 2).Draw(t, "first")
	// probes mostly around the later shapes, where the answers change
	c.Probes = append(gen.ProbePoints(t, "pa", allVerts(c.After), 4), gen.ProbePoints(t, "pb", allVerts(c.Before), 2)...)
	c.Cfg = qcfg{Limit: -1, Interiors: rapid.Bool().Draw(t, "int"), K: rapid.SampledFrom([]int{0, 1, 3}).Draw(t, "K"), Brute: rapid.IntRange(0, 3).Draw(t, "brute") == 0}
	return c
}

func checkStale(c staleCase) ev.Outcome {
	return guarded(c, func() ev.Outcome { return runStale(c) }, func(string) string { return "stale-query-object" })
}

func runStale(c staleCase) ev.Outcome {
	o := ev.Outcome{}
	if len(c.Before) == 0 || len(c.After) == 0 || len(c.Probes) < 2 || (c.Which != "cpq" && c.Which != "ceq" && c.Which != "eq") {
		o.Skip = true
		return o
	}
	hsB, hsA := buildShapes(c.Before), buildShapes(c.After)
	idx := indexOfShapes(hsB)
	hs := append(append([]s2.Shape{}, hsB...), hsA...)
	var cpq [3]*s2.ContainsPointQuery
	for m := range cpq {
		cpq[m] = s2.NewContainsPointQuery(idx, vertexModels[m])
	}
	ceq := s2.NewCrossingEdgeQuery(idx)
	eq := c.Cfg.query(idx, c.Cfg.options())
	if c.UseBefore {
		p := c.Probes[0].Pt()
		for m := range cpq {
			cpq[m].Contains(p)
		}
		ceq.CrossingsEdgeMap(p, c.Probes[1].Pt(), s2.CrossingTypeAll)
		for m := range cpq {
			cpq[m].ShapeContains(hsB[len(hsB)-1], p)
		}
		for _, s := range hsB {
			ceq.Crossings(p, c.Probes[1].Pt(), s, s2.CrossingTypeAll)
		}
		eqCall(eq, "FindEdges", s2.NewMinDistanceToPointTarget(p), 0)
		if c.First%2 == 0 {
			// single-result calls stop early and may leave search state behind
			for _, pp := range c.Probes {
				eqCall(eq, "Distance", s2.NewMinDistanceToPointTarget(pp.Pt()), 0)
			}
			eqCall(eq, "IsDistanceLess", s2.NewMinDistanceToPointTarget(p), s2.ChordAngleBetweenPoints(p, c.Probes[1].Pt()))
		}
	}
	if c.ResetIndex {
		// same object, new contents: Reset, then only the later shapes
		idx.Reset()
		hs = append([]s2.Shape{}, hsA...)
	}
	for _, s := range hsA {
		idx.Add(s)
	}
	if c.ResetIndex && c.Readd {
		for _, s := range hsB {
			idx.Add(s)
		}
		hs = append(hs, hsB...)
	}
	if c.BuildAfterAdd {
		idx.Build()
	}
	if c.ResetEQ {
		eq.Reset()
	}
	// fresh twin
	finalSpecs := append(append([]gen.ShapeSpec{}, c.Before...), c.After...)
	if c.ResetIndex {
		finalSpecs = append([]gen.ShapeSpec{}, c.After...)
		if c.Readd {
			finalSpecs = append(finalSpecs, c.Before...)
		}
	}
	fs := buildShapes(finalSpecs)
	fidx := indexOfShapes(fs)
	// would the later shapes change anything at all?
	bidx := indexOfShapes(buildShapes(c.Before))

	mism := map[string]int{}
	first := ""
	note := func(method string, got, want any) {
		if reflect.DeepEqual(got, want) {
			return
		}
		mism[method]++
		if first == "" {
			first = fmt.Sprintf("%s = %v, new query object on a fresh index with all shapes says %v", method, got, want)
		}
	}
	changed := false
	// The stale objects are asked one after another WITHOUT creating any new
	// query object on idx in between (creating one would apply the pending
	// update as a side effect and hide the staleness).
	for pi, pp := range c.Probes {
		p := pp.Pt()
		q := c.Probes[(pi+1)%len(c.Probes)].Pt()
		if p.Dot(q.Vector) < -0.9 {
			q = gen.Fix(s2.Interpolate(0.3, p, q), p)
		}
		for mm := range cpq {
			if c.Which != "cpq" {
				break
			}
			m := (mm + c.First%3 + 3) % 3
			fq := s2.NewContainsPointQuery(fidx, vertexModels[m])
			k := len(hs) - 1
			// Which method is asked first matters: any one of them may be the one
			// that notices the pending update. The vertex models take turns.
			for j := 0; j < 3; j++ {
				switch (j + c.First%3 + mm + 3) % 3 {
				case 0:
					note("ContainsPointQuery.Contains", cpq[m].Contains(p), fq.Contains(p))
				case 1:
					note("ContainsPointQuery.ContainingShapes", positions(cpq[m].ContainingShapes(p), hs), positions(fq.ContainingShapes(p), fs))
				case 2:
					note("ContainsPointQuery.ShapeContains", cpq[m].ShapeContains(hs[k], p), fq.ShapeContains(fs[k], p))
				}
			}
			if fq.Contains(p) != s2.NewContainsPointQuery(bidx, vertexModels[m]).Contains(p) {
				changed = true
			}
		}
		if c.Which == "ceq" {
			fce := s2.NewCrossingEdgeQuery(fidx)
			k := len(hs) - 1
			if c.First%2 == 1 { // either method first
				note("CrossingEdgeQuery.Crossings", append([]int{}, ceq.Crossings(p, q, hs[k], s2.CrossingTypeAll)...), append([]int{}, fce.Crossings(p, q, fs[k], s2.CrossingTypeAll)...))
			}
			note("CrossingEdgeQuery.CrossingsEdgeMap", edgeMapByPos(ceq.CrossingsEdgeMap(p, q, s2.CrossingTypeAll), hs), edgeMapByPos(fce.CrossingsEdgeMap(p, q, s2.CrossingTypeAll), fs))
			note("CrossingEdgeQuery.Crossings", append([]int{}, ceq.Crossings(p, q, hs[k], s2.CrossingTypeAll)...), append([]int{}, fce.Crossings(p, q, fs[k], s2.CrossingTypeAll)...))
			if len(fce.CrossingsEdgeMap(p, q, s2.CrossingTypeAll)) != len(s2.NewCrossingEdgeQuery(bidx).CrossingsEdgeMap(p, q, s2.CrossingTypeAll)) {
				changed = true
			}
		}
		feq := c.Cfg.query(fidx, c.Cfg.options())
		for _, m := range []string{"FindEdges", "Distance"} {
			if c.Which != "eq" {
				break
			}
			g := eqCall(eq, m, s2.NewMinDistanceToPointTarget(p), 0)
			w := eqCall(feq, m, s2.NewMinDistanceToPointTarget(p), 0)
			if d, _ := sameAnswer(m, c.Cfg, g, w); d != "" {
				if optimizedDiffersFromBrute(c.Cfg, m, finalSpecs, func() any { return s2.NewMinDistanceToPointTarget(p) }, 0, w) {
					continue // C08's defect, not staleness
				}
				mism["EdgeQuery."+m]++
				if first == "" {
					first = fmt.Sprintf("EdgeQuery%v.%s(point %v): %s", c.Cfg, m, p, d)
				}
			}
			if m == "Distance" {
				b := eqCall(c.Cfg.query(bidx, c.Cfg.options()), m, s2.NewMinDistanceToPointTarget(p), 0)
				if b.Dist != w.Dist {
					changed = true
				}
			}
		}
	}
	o.NonTrivial = changed
	o.Class = fmt.Sprintf(c.Which+"/usedBefore=%v/buildAfterAdd=%v/resetEQ=%v/resetIndex=%v/readd=%v/edges=%s", c.UseBefore, c.BuildAfterAdd, c.ResetEQ, c.ResetIndex, c.Readd, bucket(totalEdges(c.Before)+totalEdges(c.After)))
	o.Counts = map[string]int{}
	if len(mism) > 0 {
		var ms []string
		for m, n := range mism {
			ms = append(ms, m)
			k := fmt.Sprintf("stale[%s explicitBuildAfterAdd=%v]", m, c.BuildAfterAdd)
			if c.Which == "eq" {
				k = fmt.Sprintf("stale[%s explicitBuildAfterAdd=%v usedBeforeAdd=%v Reset()=%v]", m, c.BuildAfterAdd, c.UseBefore, c.ResetEQ)
			}
			o.Counts[k] = n
		}
		sort.Strings(ms)
		o.Err = fmt.Sprintf("query objects created before index.Add ignore the added shapes (usedBefore=%v buildAfterAdd=%v resetEQ=%v resetIndex=%v readd=%v); methods that disagree: %s; first: %s", c.UseBefore, c.BuildAfterAdd, c.ResetEQ, c.ResetIndex, c.Readd, strings.Join(ms, ", "), first)
		o.Finding = "stale-query-object"
	}
	return o
}
