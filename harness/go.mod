module verifharness

go 1.23

toolchain go1.23.5

require (
	github.com/golang/geo v0.0.0
	pgregory.net/rapid v1.3.0
)

replace github.com/golang/geo => /repo
