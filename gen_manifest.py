#!/usr/bin/env python3
"""Regenerates MANIFEST.json from manifest_src.json (claims) + properties.jsonl."""
import json, os
root = os.path.dirname(os.path.abspath(__file__))
src = json.load(open(os.path.join(root, "manifest_src.json")))
props = [json.loads(l)["id"] for l in open(os.path.join(root, "properties.jsonl"))]
checks, na = [], []
for pid in props:
    c = src["claims"].get(pid)
    if not c:
        na.append({"property_id": pid, "reason": src["not_claimed"].get(pid, "check not built yet in this session; no claim is made")})
        continue
    checks.append({
        "property_id": pid,
        "quick_cmd": f"./check {pid} --tier quick",
        "thorough_cmd": f"./check {pid} --tier thorough",
        "evidence_file": f"/verif/evidence/{pid}.json",
        "replay_cmd_template": f"./check {pid} --replay {{path}}",
        "engine": "rapid-harness",
        "level_claimed": {"category": c.get("category", "exploration"), "text": c["text"], "design_ref": c.get("design_ref", f"DESIGN.md §4 {pid}")},
        "level_note": c["note"],
        "technique": c["technique"],
    })
m = {
    "version": 1,
    "setup_cmd": "./setup.sh",
    "hooks": {
        "guard": "verif",
        "enable": "go build tag: the harness builds /repo through a replace directive with `go test -c -tags verif`",
        "baseline_off_cmd": "cd /repo && GOFLAGS=-mod=mod GOPROXY=off GOSUMDB=off GOTOOLCHAIN=local go test -json -vet=off -count=1 -timeout 25m ./...",
        "source_commits": src["hook_commits"],
        "add_only": True,
    },
    "engines": [{"name": "rapid-harness", "path": "/verif/harness", "serves_properties": [c["property_id"] for c in checks],
                 "kind_free_text": "Go module: pgregory.net/rapid v1.3.0 generators -> plain-data Case -> pure Check(Case) with an independent oracle; python driver ./check shards by PRNG value, watchdogs, merges evidence, replays stored cases"}],
    "checks": checks,
    "not_applicable": na,
    "notes": src.get("notes", ""),
}
json.dump(m, open(os.path.join(root, "MANIFEST.json"), "w"), indent=1)
print("claimed", len(checks), "not claimed", len(na))
